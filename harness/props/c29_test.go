package props

// C29 "Streaming reads deliver exact bytes and recycle connections": DoStream / DoMultiStream
// against the fake server inside a bubble. Replies are VREPLY payloads of every type the property
// names, the consumer's writer may fail, the server may drop the connection in the middle of a
// reply, contexts may be done or carry a deadline. The oracle compares the bytes handed to the
// writer with the generated payload and follows the stream connection in the server's event log
// (reused after a clean stream, closed after an unclean one, never more than BlockingPoolSize open).

import (
	"context"
	"crypto/tls"
	"encoding/json"
	"errors"
	"fmt"
	"io"
	"net"
	"os"
	"sort"
	"strconv"
	"strings"
	"sync"
	"testing"
	"time"

	"github.com/redis/rueidis"
	"pgregory.net/rapid"
	"verif/harness/sim"
	"verifkit/bubble"
	"verifkit/fakeredis"
	"verifkit/resp"
	"verifkit/stat"
)

type c29Reply struct {
	Kind   string `json:"kind"` // blob chunked verbatim simple int double bignum null null2 nullarr err bloberr array map set
	Len    int    `json:"len,omitempty"`
	Seed   int    `json:"seed,omitempty"`
	Text   string `json:"text,omitempty"`
	Int    int64  `json:"int,omitempty"`
	Chunks []int  `json:"chunks,omitempty"`
	Attr   bool   `json:"attr,omitempty"` // attribute frame in front of the reply (RESP3)
}

type c29Cmd struct {
	UID     string   `json:"uid"`
	Reply   c29Reply `json:"reply"`
	LatUs   int      `json:"lat_us,omitempty"`
	PauseUs int      `json:"pause_us,omitempty"` // the consumer waits this long before its WriteTo
	Fault   string   `json:"fault,omitempty"`    // drop-mid | drop-after
	WLimit  int      `json:"wlimit"`             // -1: the writer never fails; else it fails once more than this many bytes are offered
	WFull   bool     `json:"wfull,omitempty"`    // the failing Write accepts everything it was offered (n == len(p) with an error) instead of a short write
}

type c29Op struct {
	GapUs      int      `json:"gap_us"`
	Kind       string   `json:"kind"` // stream | multi | do
	Cmds       []c29Cmd `json:"cmds"`
	Ctx        string   `json:"ctx,omitempty"` // "" | done | deadline | cancel-mid
	DeadlineUs int      `json:"deadline_us,omitempty"`
	Extra      bool     `json:"extra,omitempty"` // one more WriteTo after the stream has ended
}

type c29Plan struct {
	PoolSize   int       `json:"pool_size"`
	NoAutoPipe bool      `json:"no_auto_pipe"` // DisableAutoPipelining: plain Do calls share the stream pool
	RESP2      bool      `json:"resp2"`
	Callers    [][]c29Op `json:"callers"`
}

type c29Write struct {
	HasNext bool
	N       int64
	Err     error
	Got     []byte
	Calls   int
	StartUs int64
	EndUs   int64
}

type c29Obs struct {
	Caller, Op     int
	StartUs, EndUs int64
	Writes         []c29Write
	HasNextAfter   bool
	StreamErr      error
	ExtraDone      bool
	ExtraN         int64
	ExtraErr       error
	ExtraGot       int
	DoRes          rueidis.RedisResult
	Done           bool
}

var errC29Writer = errors.New("c29: consumer's writer failed")

type c29Writer struct {
	buf   []byte
	limit int
	full  bool
	calls int
}

func (w *c29Writer) Write(p []byte) (int, error) {
	w.calls++
	if w.limit >= 0 && len(w.buf)+len(p) > w.limit {
		if w.full {
			w.buf = append(w.buf, p...)
			return len(p), errC29Writer
		}
		n := w.limit - len(w.buf)
		if n < 0 {
			n = 0
		}
		w.buf = append(w.buf, p[:n]...)
		return n, errC29Writer
	}
	w.buf = append(w.buf, p...)
	return len(p), nil
}

// c29Payload is a deterministic, non-periodic byte string (so that a reply that starts at the
// wrong offset cannot compare equal) with CR and LF sprinkled in.
func c29Payload(seed, n int) string {
	b := make([]byte, n)
	x := uint32(seed)*2654435761 + 12345
	for i := range b {
		x = x*1664525 + 1013904223
		c := byte(x >> 24)
		switch {
		case c < 6:
			b[i] = '\r'
		case c < 12:
			b[i] = '\n'
		default:
			b[i] = 'a' + c%26
		}
	}
	return string(b)
}

func (r c29Reply) value() resp.Value {
	var v resp.Value
	switch r.Kind {
	case "blob":
		v = resp.Bulk(c29Payload(r.Seed, r.Len))
	case "chunked":
		v = resp.Bulk(c29Payload(r.Seed, r.Len))
		v.Chunks = append([]int{}, r.Chunks...)
	case "verbatim":
		v = resp.Value{T: '=', S: "txt:" + c29Payload(r.Seed, r.Len)}
	case "simple":
		v = resp.Simple(r.Text)
	case "int":
		v = resp.Int(r.Int)
	case "double":
		v = resp.Double(r.Text)
	case "bignum":
		v = resp.Value{T: '(', S: r.Text}
	case "null":
		v = resp.Null()
	case "null2":
		v = resp.Null()
		v.Null2 = '$'
	case "nullarr":
		v = resp.Null()
		v.Null2 = '*'
	case "err":
		v = resp.Err(r.Text)
	case "bloberr":
		v = resp.Value{T: '!', S: r.Text}
	case "array":
		v = resp.Arr(resp.Bulk("a"), resp.Int(1))
	case "map":
		v = resp.Map(resp.Bulk("k"), resp.Bulk("v"))
	case "set":
		v = resp.Set(resp.Bulk("a"), resp.Bulk("b"))
	default:
		panic("c29: unknown reply kind " + r.Kind)
	}
	if r.Attr {
		v.Attr = []resp.Value{resp.Simple("ttl"), resp.Int(3600)}
	}
	return v
}

// outcome: "text" (payload is written), "nil", "err", "unsupported"
func (r c29Reply) outcome() string {
	switch r.Kind {
	case "blob", "chunked", "verbatim", "simple", "int", "double", "bignum":
		return "text"
	case "null", "null2", "nullarr":
		return "nil"
	case "err", "bloberr":
		return "err"
	}
	return "unsupported"
}

func (r c29Reply) text() string {
	switch r.Kind {
	case "blob", "chunked":
		return c29Payload(r.Seed, r.Len)
	case "verbatim":
		return "txt:" + c29Payload(r.Seed, r.Len)
	case "int":
		return strconv.FormatInt(r.Int, 10)
	}
	return r.Text
}

// streamed reports whether the client copies the payload to the writer piece by piece (blob and
// verbatim frames that start the reply) instead of decoding the whole reply first.
func (r c29Reply) streamed() bool {
	return !r.Attr && (r.Kind == "blob" || r.Kind == "chunked" || r.Kind == "verbatim")
}

func (cm c29Cmd) raw() string { return string(resp.Append(nil, cm.Reply.value())) }

func (cm c29Cmd) argv() []string {
	return []string{"VREPLY", cm.UID, cm.raw(), strconv.Itoa(cm.LatUs)}
}

// writerFails reports whether the planned writer failure triggers for this reply.
func (cm c29Cmd) writerFails() bool {
	return cm.WLimit >= 0 && cm.Reply.outcome() == "text" && len(cm.Reply.text()) > cm.WLimit
}

// c29Tracker wraps the client's dialer: it numbers the connections like the fake server does and records when
// the client closes each of them (the server notices a close only at its next read or write, which may be a
// latency later).
type c29Tracker struct {
	mu      sync.Mutex
	w       *fakeredis.World
	srv     *fakeredis.Server
	CloseUs map[int]int64
	LastID  int // id of the connection dialled last
}

type c29Conn struct {
	net.Conn
	id int
	t  *c29Tracker
}

func (c *c29Conn) Close() error {
	c.t.mu.Lock()
	if _, ok := c.t.CloseUs[c.id]; !ok {
		c.t.CloseUs[c.id] = c.t.w.Since()
	}
	c.t.mu.Unlock()
	return c.Conn.Close()
}

func (t *c29Tracker) dial(ctx context.Context, addr string, _ *net.Dialer, _ *tls.Config) (net.Conn, error) {
	if err := ctx.Err(); err != nil {
		return nil, err
	}
	t.mu.Lock()
	defer t.mu.Unlock()
	conn, err := t.w.Dial(addr)
	if err != nil {
		return nil, err
	}
	t.LastID = len(t.srv.Conns()) - 1
	return &c29Conn{Conn: conn, id: t.LastID, t: t}, nil
}

type c29Run struct {
	ClientClose map[int]int64 // connection id -> world time of the client's Close call
	Res         bubble.Result
	Obs         []*c29Obs
	Events      []fakeredis.Event
	NPipeline   int   // connections opened by NewClient (the pipelining connection)
	CloseUs     int64 // world time when Client.Close was called
	CloseOK     bool
	Pending     int
	NewErr      string
}

func c29RunPlan(t *testing.T, plan c29Plan) (run c29Run) {
	var mu sync.Mutex
	for ci, ops := range plan.Callers {
		for oi := range ops {
			run.Obs = append(run.Obs, &c29Obs{Caller: ci, Op: oi})
		}
	}
	idx := func(ci, oi int) *c29Obs {
		n := 0
		for c := 0; c < ci; c++ {
			n += len(plan.Callers[c])
		}
		return run.Obs[n+oi]
	}
	faults := map[string]string{}
	for _, ops := range plan.Callers {
		for _, op := range ops {
			for _, cm := range op.Cmds {
				if cm.Fault != "" {
					faults[cm.UID] = cm.Fault
				}
			}
		}
	}
	run.Res = bubble.Run(t, func() {
		w := fakeredis.NewWorld()
		srv := w.NewServer("127.0.0.1:6379")
		srv.Hooks.Latency = func(c *fakeredis.Conn, req int, argv []string) time.Duration {
			if len(argv) > 3 && argv[0] == "VREPLY" {
				n, _ := strconv.Atoi(argv[3])
				return time.Duration(n) * time.Microsecond
			}
			return 0
		}
		srv.Hooks.Fault = func(c *fakeredis.Conn, req int, argv []string) fakeredis.Fault {
			if len(argv) > 1 && argv[0] == "VREPLY" {
				switch faults[argv[1]] {
				case "drop-mid":
					return fakeredis.Fault{Kind: fakeredis.DropMidReply}
				case "drop-after":
					return fakeredis.Fault{Kind: fakeredis.DropAfterExec}
				}
			}
			return fakeredis.Fault{}
		}
		opt := sim.Option(w, "127.0.0.1:6379")
		tracker := &c29Tracker{w: w, srv: srv, CloseUs: map[int]int64{}}
		opt.DialCtxFn = tracker.dial
		opt.ForceSingleClient = true
		opt.DisableRetry = true
		opt.PipelineMultiplex = -1
		opt.BlockingPoolSize = plan.PoolSize
		opt.DisableAutoPipelining = plan.NoAutoPipe
		if plan.RESP2 {
			opt.AlwaysRESP2 = true
			opt.DisableCache = true
		}
		client, err := rueidis.NewClient(opt)
		if err != nil {
			run.NewErr = err.Error()
			w.Stop()
			return
		}
		run.NPipeline = len(srv.Conns())
		var wg sync.WaitGroup
		for ci, ops := range plan.Callers {
			wg.Add(1)
			go func(ci int, ops []c29Op) {
				defer wg.Done()
				for oi, op := range ops {
					time.Sleep(time.Duration(op.GapUs) * time.Microsecond)
					o := idx(ci, oi)
					ctx := context.Background()
					var cancel context.CancelFunc = func() {}
					switch op.Ctx {
					case "done":
						ctx, cancel = context.WithCancel(ctx)
						cancel()
					case "deadline":
						ctx, cancel = context.WithTimeout(ctx, time.Duration(op.DeadlineUs)*time.Microsecond)
					case "cancel-mid":
						ctx, cancel = context.WithCancel(ctx)
						time.AfterFunc(time.Duration(op.DeadlineUs)*time.Microsecond, cancel)
					}
					build := func(cm c29Cmd) rueidis.Completed {
						a := cm.argv()
						return client.B().Arbitrary(a[0]).Args(a[1:]...).Build()
					}
					start := w.Since()
					if op.Kind == "do" {
						res := client.Do(ctx, build(op.Cmds[0]))
						mu.Lock()
						o.StartUs, o.EndUs, o.DoRes, o.Done = start, w.Since(), res, true
						mu.Unlock()
						cancel()
						continue
					}
					var s rueidis.RedisResultStream
					if op.Kind == "stream" {
						s = client.DoStream(ctx, build(op.Cmds[0]))
					} else {
						cmds := make(rueidis.Commands, len(op.Cmds))
						for i, cm := range op.Cmds {
							cmds[i] = build(cm)
						}
						s = client.DoMultiStream(ctx, cmds...)
					}
					var writes []c29Write
					for i := 0; i < len(op.Cmds)+2; i++ {
						if !s.HasNext() {
							break
						}
						wr := &c29Writer{limit: -1}
						if i < len(op.Cmds) {
							time.Sleep(time.Duration(op.Cmds[i].PauseUs) * time.Microsecond)
							wr.limit, wr.full = op.Cmds[i].WLimit, op.Cmds[i].WFull
						}
						t0 := w.Since()
						n, err := s.WriteTo(wr)
						writes = append(writes, c29Write{HasNext: true, N: n, Err: err, Got: wr.buf, Calls: wr.calls, StartUs: t0, EndUs: w.Since()})
					}
					hn := s.HasNext()
					serr := s.Error()
					var en int64
					var eerr error
					egot := 0
					if op.Extra {
						wr := &c29Writer{limit: -1}
						en, eerr = s.WriteTo(wr)
						egot = len(wr.buf)
					}
					mu.Lock()
					o.StartUs, o.EndUs, o.Writes, o.HasNextAfter, o.StreamErr = start, w.Since(), writes, hn, serr
					o.ExtraDone, o.ExtraN, o.ExtraErr, o.ExtraGot = op.Extra, en, eerr, egot
					o.Done = true
					mu.Unlock()
					cancel()
				}
			}(ci, ops)
		}
		finished := sim.WaitTimeout(&wg, 10*time.Minute)
		if !finished {
			mu.Lock()
			for _, o := range run.Obs {
				if !o.Done {
					run.Pending++
				}
			}
			mu.Unlock()
		}
		run.CloseUs = w.Since()
		run.CloseOK = sim.CallTimeout(time.Minute, client.Close)
		w.Stop()
		run.Events = w.Snapshot()
		time.Sleep(5 * time.Second)
		if !finished {
			sim.WaitTimeout(&wg, time.Minute)
		}
		tracker.mu.Lock()
		run.ClientClose = map[int]int64{}
		for k, v := range tracker.CloseUs {
			run.ClientClose[k] = v
		}
		tracker.mu.Unlock()
	})
	return
}

// ---- generator

var c29Sizes = []int{0, 1, 2, 7, 64, 500, 4094, 4095, 4096, 4097, 9000, 33000, 65536, 66000, 140000, 204800}

func genC29Reply(rt *rapid.T, resp2, small bool, uid int) c29Reply {
	kinds := []string{"blob", "blob", "blob", "chunked", "chunked", "verbatim", "simple", "int", "double", "bignum", "null", "null2", "nullarr", "err", "bloberr", "array", "map", "set"}
	if resp2 {
		kinds = []string{"blob", "blob", "blob", "simple", "int", "null2", "nullarr", "err", "array"}
	}
	r := c29Reply{Kind: rapid.SampledFrom(kinds).Draw(rt, "kind")}
	switch r.Kind {
	case "blob", "chunked", "verbatim":
		r.Seed = uid
		if small || rapid.IntRange(0, 2).Draw(rt, "smallBlob") != 0 {
			r.Len = rapid.SampledFrom(c29Sizes[:9]).Draw(rt, "len")
		} else {
			r.Len = rapid.SampledFrom(c29Sizes).Draw(rt, "lenBig")
		}
		if r.Kind == "chunked" {
			n := rapid.IntRange(0, 4).Draw(rt, "nchunks")
			r.Chunks = []int{}
			for i := 0; i < n; i++ {
				r.Chunks = append(r.Chunks, rapid.SampledFrom([]int{1, 3, 100, 4096, 5000, 40000}).Draw(rt, "chunk"))
			}
		}
	case "simple":
		r.Text = rapid.SampledFrom([]string{"OK", "", "QUEUED", "PONG", "OK then more", "O", "a simple string with spaces " + strconv.Itoa(uid)}).Draw(rt, "simple")
	case "int":
		r.Int = rapid.SampledFrom([]int64{0, 1, -1, 42, 1 << 40, 9223372036854775807, -9223372036854775808, int64(uid)}).Draw(rt, "int")
	case "double":
		r.Text = rapid.SampledFrom([]string{"1.5", "-0.25", "3", "inf", "-inf", "nan", "1e+10", "0.1"}).Draw(rt, "double")
	case "bignum":
		r.Text = rapid.SampledFrom([]string{"123456789012345678901234567890", "-7", "0"}).Draw(rt, "bignum")
	case "err", "bloberr":
		r.Text = rapid.SampledFrom([]string{"ERR c29 failed ", "WRONGTYPE c29 wrong kind ", "NOPERM c29 "}).Draw(rt, "errText") + strconv.Itoa(uid)
	}
	if !resp2 && rapid.IntRange(0, 7).Draw(rt, "attr") == 0 {
		r.Attr = true
	}
	return r
}

func genC29Plan(rt *rapid.T) c29Plan {
	p := c29Plan{
		PoolSize:   rapid.IntRange(1, 2).Draw(rt, "poolSize"),
		NoAutoPipe: rapid.Bool().Draw(rt, "noAutoPipe"),
		RESP2:      rapid.IntRange(0, 4).Draw(rt, "resp2") == 0,
	}
	uid := 0
	nc := rapid.SampledFrom([]int{1, 1, 1, 2, 2, 3}).Draw(rt, "callers")
	for c := 0; c < nc; c++ {
		no := rapid.IntRange(1, 4).Draw(rt, "ops")
		ops := make([]c29Op, no)
		for i := range ops {
			op := c29Op{GapUs: rapid.SampledFrom([]int{0, 0, 100, 700, 3000}).Draw(rt, "gap"), Kind: rapid.SampledFrom([]string{"stream", "stream", "multi", "multi", "multi", "do"}).Draw(rt, "kind")}
			n := 1
			if op.Kind == "multi" {
				n = rapid.IntRange(1, 5).Draw(rt, "n")
			}
			for k := 0; k < n; k++ {
				uid++
				cm := c29Cmd{UID: "u" + strconv.Itoa(uid), WLimit: -1}
				cm.Reply = genC29Reply(rt, p.RESP2, op.Kind == "do", uid)
				if op.Kind != "do" {
					cm.LatUs = rapid.SampledFrom([]int{0, 0, 0, 200, 1500}).Draw(rt, "lat")
					cm.PauseUs = rapid.SampledFrom([]int{0, 0, 0, 300, 2500}).Draw(rt, "pause")
				}
				op.Cmds = append(op.Cmds, cm)
			}
			if op.Kind != "do" {
				switch rapid.IntRange(0, 11).Draw(rt, "ctxKind") {
				case 0:
					op.Ctx = "done"
				case 1:
					op.Ctx = "deadline"
					op.DeadlineUs = rapid.SampledFrom([]int{100, 1000, 4000, 1000000}).Draw(rt, "deadline")
				case 2:
					op.Ctx = "cancel-mid"
					op.DeadlineUs = rapid.SampledFrom([]int{1, 250, 1000, 4000}).Draw(rt, "cancelAt")
				}
				switch rapid.IntRange(0, 7).Draw(rt, "failure") {
				case 0, 1:
					j := rapid.IntRange(0, n-1).Draw(rt, "faultAt")
					op.Cmds[j].Fault = rapid.SampledFrom([]string{"drop-mid", "drop-mid", "drop-mid", "drop-after"}).Draw(rt, "fault")
				case 2, 3:
					j := rapid.IntRange(0, n-1).Draw(rt, "wfailAt")
					op.Cmds[j].WLimit = rapid.SampledFrom([]int{0, 1, 3, 100, 4096, 5000, 40000}).Draw(rt, "wlimit")
					op.Cmds[j].WFull = rapid.Bool().Draw(rt, "wfull")
				}
				op.Extra = rapid.Bool().Draw(rt, "extra")
			}
			ops[i] = op
		}
		p.Callers = append(p.Callers, ops)
	}
	return p
}

// ---- oracle

func c29IsTimeout(err error) bool {
	var ne net.Error
	return errors.Is(err, os.ErrDeadlineExceeded) || errors.Is(err, context.DeadlineExceeded) || (errors.As(err, &ne) && ne.Timeout())
}

func c29Short(b []byte) string {
	if len(b) > 48 {
		return fmt.Sprintf("%q...(%d bytes)", b[:48], len(b))
	}
	return fmt.Sprintf("%q", b)
}

func c29Check(c *stat.Collector, rt stat.Fataler, plan c29Plan, run c29Run) (nt bool, classes []string) {
	class := map[string]bool{}
	defer func() {
		for k := range class {
			classes = append(classes, k)
		}
		sort.Strings(classes)
	}()
	if run.NewErr != "" {
		c.Fail(rt, "C29.harness", "NewClient failed: "+run.NewErr, plan)
	}
	if run.Res.Panic != nil {
		c.Fail(rt, "C29.no-panic", run.Res.String(), plan)
	}
	// Does the plan contain a writer failure on a streamed blob? Those run into two recorded defects of
	// streamTo (the rest of the reply is not skipped correctly), after which the connection is out of step.
	overdiscard, chunked := false, false
	for _, ops := range plan.Callers {
		for _, op := range ops {
			if op.Ctx == "done" || op.Kind == "do" {
				continue
			}
			for _, cm := range op.Cmds {
				if cm.writerFails() && cm.Reply.streamed() {
					if cm.Reply.Kind == "chunked" {
						chunked = true
					} else if !cm.WFull {
						overdiscard = true
					}
				}
			}
		}
	}
	knownTaint := false
	if overdiscard && c.Known("C29.writer-error-overdiscard") {
		knownTaint = true
	}
	if chunked && c.Known("C29.writer-error-chunked") {
		knownTaint = true
	}
	if knownTaint {
		class["excluded-known-writer-failure"] = true
	}
	// after such a writer failure every later discrepancy is a consequence of it: report it under the guarded clause
	afterTaint := false
	fail := func(clause, detail string) {
		if afterTaint {
			clause, detail = "C29.writer-failure-recovery", "after a writer failure on a streamed blob reply (the rest of that reply must be skipped exactly, or the connection closed): "+detail
		}
		c.Fail(rt, clause, detail, plan)
	}
	if (run.Pending > 0 || run.Res.Deadlock) && !knownTaint {
		afterTaint = overdiscard || chunked
		fail("C29.no-hang", fmt.Sprintf("%d stream calls never returned: a connection was not returned to the pool, or a read never ended (%s)", run.Pending, run.Res))
	}
	if run.Res.Leak && !knownTaint {
		afterTaint = overdiscard || chunked
		fail("C29.no-leak", run.Res.String())
	}
	if run.Pending > 0 || run.Res.Deadlock || run.Res.Leak {
		return false, nil
	}
	if !run.CloseOK {
		fail("C29.close-returns", "Client.Close did not return within a virtual minute")
	}

	// server side: where did each command go
	type connInfo struct {
		openUs, closeUs int64 // closeUs -1: never
		closeNote       string
	}
	conns := map[int]*connInfo{}
	uidConn := map[string]int{}
	uidRecvUs := map[string]int64{}
	uidRecvSeq := map[string]int64{}
	uidSeen := map[string]int{}
	issued := map[string][]string{}
	for _, ops := range plan.Callers {
		for _, op := range ops {
			for _, cm := range op.Cmds {
				issued[cm.UID] = cm.argv()
			}
		}
	}
	for _, e := range run.Events {
		switch e.Kind {
		case "open":
			conns[e.Conn] = &connInfo{openUs: e.At, closeUs: -1}
		case "close":
			if ci := conns[e.Conn]; ci != nil && ci.closeUs < 0 {
				ci.closeUs, ci.closeNote = e.At, "server: "+e.Note
				// the client's own Close call, if earlier, is when the connection stopped being open
				if cc, ok := run.ClientClose[e.Conn]; ok && cc < ci.closeUs {
					ci.closeUs, ci.closeNote = cc, "closed by the client"
				}
			}
		case "recv":
			if e.Argv[0] == "VREPLY" {
				want, ok := issued[e.Argv[1]]
				if !ok || strings.Join(want, "\x00") != strings.Join(e.Argv, "\x00") {
					fail("C29.frames", fmt.Sprintf("the server received %q which is not the argv of an issued command", trunc(e.Argv)))
				}
				if uidSeen[e.Argv[1]]++; uidSeen[e.Argv[1]] > 1 {
					fail("C29.frames", fmt.Sprintf("command %s reached the server twice", e.Argv[1]))
				}
				uidConn[e.Argv[1]] = e.Conn
				uidRecvUs[e.Argv[1]] = e.At
				uidRecvSeq[e.Argv[1]] = e.Seq
			} else if !sim.ClientInternal(e.Argv) {
				fail("C29.frames", fmt.Sprintf("the server received %q which nobody issued", trunc(e.Argv)))
			}
		}
	}

	// per-op expectations, in start order
	order := make([]*c29Obs, 0, len(run.Obs))
	for _, o := range run.Obs {
		if o.Done {
			order = append(order, o)
		}
	}
	sort.SliceStable(order, func(i, j int) bool { return order[i].StartUs < order[j].StartUs })
	type opSummary struct {
		o        *c29Obs
		conn     int // -1: its commands never reached the server
		clean    bool
		firstUs  int64
		firstSeq int64
	}
	var sums []opSummary
	failedNonLast, bigPayload, chunkedRead := false, false, false
	// taintSeq: server sequence number at which the first command whose streamed blob reply met a failing writer
	// was received; every call served after it may find its connection out of step (recorded defects)
	taintSeq, taintUs := int64(-1), int64(-1)
	for _, o := range order {
		op := plan.Callers[o.Caller][o.Op]
		if op.Kind == "do" || op.Ctx == "done" {
			continue
		}
		for i, cm := range op.Cmds {
			if cm.writerFails() && cm.Reply.streamed() && (cm.Reply.Kind == "chunked" || !cm.WFull) && i < len(o.Writes) {
				if sq, ok := uidRecvSeq[cm.UID]; ok && (taintSeq < 0 || sq < taintSeq) {
					taintSeq, taintUs = sq, uidRecvUs[cm.UID]
				}
			}
		}
	}
	tainted := false
	for _, o := range order {
		op := plan.Callers[o.Caller][o.Op]
		where := fmt.Sprintf("caller %d op %d (%s)", o.Caller, o.Op, op.Kind)
		sum := opSummary{o: o, conn: -1, clean: true}
		afterTaint = false
		for _, cm := range op.Cmds {
			if cn, ok := uidConn[cm.UID]; ok {
				if sum.conn >= 0 && sum.conn != cn {
					fail("C29.one-connection", fmt.Sprintf("%s: its commands went to connections c%d and c%d", where, sum.conn, cn))
				}
				if sum.conn < 0 {
					sum.firstUs, sum.firstSeq = uidRecvUs[cm.UID], uidRecvSeq[cm.UID]
				}
				sum.conn = cn
			}
		}
		if taintSeq >= 0 && (sum.conn >= 0 && sum.firstSeq > taintSeq || sum.conn < 0 && o.EndUs >= taintUs) {
			if knownTaint {
				continue
			}
			afterTaint = true
		}
		if op.Kind == "do" {
			class["plain-do"] = true
			if err := sim.MatchResult(o.DoRes, op.Cmds[0].Reply.value()); err != nil {
				fail("C29.next-call-own-reply", fmt.Sprintf("%s: a plain Do after streams did not get its own reply (connection out of step?): %v", where, err))
			}
			sums = append(sums, sum)
			continue
		}
		if op.Ctx == "done" {
			class["ctx-done"] = true
			if len(o.Writes) != 0 || o.HasNextAfter {
				fail("C29.done-context", fmt.Sprintf("%s: HasNext is true for a stream started with a done context", where))
			}
			if !errors.Is(o.StreamErr, context.Canceled) {
				fail("C29.done-context", fmt.Sprintf("%s: Error() = %v, want context.Canceled", where, o.StreamErr))
			}
			if o.ExtraDone && (!errors.Is(o.ExtraErr, context.Canceled) || o.ExtraN != 0 || o.ExtraGot != 0) {
				fail("C29.done-context", fmt.Sprintf("%s: WriteTo = (%d, %v) wrote %d bytes, want (0, context.Canceled)", where, o.ExtraN, o.ExtraErr, o.ExtraGot))
			}
			if sum.conn >= 0 {
				fail("C29.done-context", fmt.Sprintf("%s: commands of a call with a done context reached the server", where))
			}
			sums = append(sums, sum)
			continue
		}
		var latBudget int64 = 1000
		for _, cm := range op.Cmds {
			latBudget += int64(cm.LatUs)
		}
		dl := int64(-1)
		if op.Ctx == "deadline" {
			dl = o.StartUs + int64(op.DeadlineUs)
			class["ctx-deadline"] = true
		}
		if op.Ctx == "cancel-mid" {
			class["ctx-cancel-mid"] = true
		}
		ended := false // the stream has reported a terminal failure
		var termErr error
	replies:
		for i, cm := range op.Cmds {
			if i >= len(o.Writes) {
				if !ended && len(o.Writes) > 0 {
					fail("C29.has-next", fmt.Sprintf("%s: HasNext turned false after %d of %d replies although none of them failed to be read", where, i, len(op.Cmds)))
				}
				break
			}
			wr := o.Writes[i]
			if ended {
				fail("C29.has-next", fmt.Sprintf("%s: HasNext stayed true after reply %d could not be read (%v)", where, i-1, termErr))
			}
			at := fmt.Sprintf("%s reply %d (%s, %s)", where, i, cm.UID, cm.Reply.Kind)
			if wr.N != int64(len(wr.Got)) {
				fail("C29.byte-count", fmt.Sprintf("%s: WriteTo returned n=%d but the writer accepted %d bytes", at, wr.N, len(wr.Got)))
			}
			text := cm.Reply.text()
			terminal := func(why string) {
				ended, termErr, sum.clean = true, wr.Err, false
				class["unclean-"+why] = true
				if i < len(op.Cmds)-1 {
					failedNonLast = true
				}
			}
			// a read that hit the call's deadline
			if wr.Err != nil && c29IsTimeout(wr.Err) && wr.Err != errC29Writer {
				if dl < 0 || wr.EndUs < dl {
					fail("C29.unexpected-error", fmt.Sprintf("%s: failed with %v at +%dus although the call has no deadline before that", at, wr.Err, wr.EndUs))
				}
				if !strings.HasPrefix(text, string(wr.Got)) && cm.Reply.outcome() == "text" {
					fail("C29.payload", fmt.Sprintf("%s: wrote %s before the deadline error, not a prefix of the payload", at, c29Short(wr.Got)))
				}
				terminal("deadline")
				continue
			}
			if cm.Fault != "" {
				class["fault-"+cm.Fault] = true
				if wr.Err == nil || sim.IsReplyError(wr.Err) {
					fail("C29.dropped-connection", fmt.Sprintf("%s: the server dropped the connection (%s) but WriteTo returned (%d, %v)", at, cm.Fault, wr.N, wr.Err))
				}
				if cm.Reply.outcome() == "text" {
					if !strings.HasPrefix(text, string(wr.Got)) || len(wr.Got) >= len(text) && len(text) > 0 {
						fail("C29.payload", fmt.Sprintf("%s: wrote %s of a reply that was cut in the middle; want a proper prefix of the payload", at, c29Short(wr.Got)))
					}
				} else if len(wr.Got) != 0 {
					fail("C29.payload", fmt.Sprintf("%s: wrote %s for a reply without payload", at, c29Short(wr.Got)))
				}
				terminal(cm.Fault)
				continue
			}
			if wr.EndUs-wr.StartUs > latBudget && !(cm.writerFails() && cm.Reply.streamed()) {
				fail("C29.prompt", fmt.Sprintf("%s: WriteTo took %dus of virtual time although the server's latency for the whole call is below %dus", at, wr.EndUs-wr.StartUs, latBudget))
			}
			switch cm.Reply.outcome() {
			case "text":
				if len(text) > 64<<10 && cm.Reply.streamed() {
					bigPayload = true
					class["payload>64KiB"] = true
				}
				if cm.Reply.Kind == "chunked" {
					chunkedRead = true
					class["chunked-blob"] = true
				}
				if cm.Reply.Attr {
					class["attribute-prefixed"] = true
				}
				if cm.writerFails() {
					class["writer-failure"] = true
					if !errors.Is(wr.Err, errC29Writer) {
						fail("C29.writer-error-reported", fmt.Sprintf("%s: the writer failed after %d bytes but WriteTo returned (%d, %v)", at, cm.WLimit, wr.N, wr.Err))
					}
					if !strings.HasPrefix(text, string(wr.Got)) || (!cm.WFull && len(wr.Got) != cm.WLimit) {
						fail("C29.payload", fmt.Sprintf("%s: the writer was given %s before it failed; want a prefix of the payload (%d bytes for a short write)", at, c29Short(wr.Got), cm.WLimit))
					}
					if i < len(op.Cmds)-1 {
						failedNonLast = true
					}
					if cm.Reply.streamed() && (cm.Reply.Kind == "chunked" || !cm.WFull) {
						// recorded defects: the remainder of the reply is not skipped correctly
						if knownTaint {
							tainted = true
							break replies
						} else {
							afterTaint = true
							if wr.EndUs-wr.StartUs > latBudget {
								fail("C29.writer-failure-recovery", fmt.Sprintf("%s: WriteTo stalled for %dus of virtual time (until the connection's deadline)", at, wr.EndUs-wr.StartUs))
							}
						}
					}
					// the reply was consumed (or the stream ends here with the connection closed): decided by what follows
					if i+1 >= len(o.Writes) && (i+1 < len(op.Cmds) || !errors.Is(o.StreamErr, io.EOF)) && cm.Reply.streamed() {
						terminal("writer-failure")
					}
					continue
				}
				if wr.Err != nil {
					fail("C29.unexpected-error", fmt.Sprintf("%s: WriteTo failed with %v; nothing failed", at, wr.Err))
				}
				if string(wr.Got) != text {
					d := 0
					for d < len(wr.Got) && d < len(text) && wr.Got[d] == text[d] {
						d++
					}
					fail("C29.payload", fmt.Sprintf("%s: the writer received %d bytes %s, want the %d payload bytes (first difference at offset %d)", at, len(wr.Got), c29Short(wr.Got), len(text), d))
				}
			case "nil":
				class["nil-reply"] = true
				if !rueidis.IsRedisNil(wr.Err) || len(wr.Got) != 0 {
					fail("C29.nil-reply", fmt.Sprintf("%s: WriteTo returned (%d, %v), wrote %s; want a Redis nil error and no bytes", at, wr.N, wr.Err, c29Short(wr.Got)))
				}
				if i < len(op.Cmds)-1 {
					failedNonLast = true
				}
			case "err":
				class["error-reply"] = true
				var re *rueidis.RedisError
				if !errors.As(wr.Err, &re) || rueidis.IsRedisNil(wr.Err) || len(wr.Got) != 0 {
					fail("C29.error-reply", fmt.Sprintf("%s: WriteTo returned (%d, %v), wrote %s; want the error reply and no bytes", at, wr.N, wr.Err, c29Short(wr.Got)))
				}
				// the normal read path strips the generic "ERR " prefix; either form is the reply's text
				if re.Error() != cm.Reply.Text && re.Error() != strings.TrimPrefix(cm.Reply.Text, "ERR ") {
					fail("C29.error-reply", fmt.Sprintf("%s: error text %q, want %q", at, re.Error(), cm.Reply.Text))
				}
				if i < len(op.Cmds)-1 {
					failedNonLast = true
				}
			case "unsupported":
				class["unsupported-aggregate"] = true
				if wr.Err == nil || sim.IsReplyError(wr.Err) || errors.Is(wr.Err, io.EOF) || len(wr.Got) != 0 {
					fail("C29.unsupported-reply", fmt.Sprintf("%s: WriteTo returned (%d, %v), wrote %s; want an error and no bytes", at, wr.N, wr.Err, c29Short(wr.Got)))
				}
				if i < len(op.Cmds)-1 {
					failedNonLast = true
				}
			}
		}
		if tainted {
			tainted = false
			continue
		}
		if len(o.Writes) > len(op.Cmds) {
			fail("C29.has-next", fmt.Sprintf("%s: HasNext was still true after %d WriteTo calls for %d commands", where, len(op.Cmds), len(op.Cmds)))
		}
		if o.HasNextAfter {
			fail("C29.has-next", fmt.Sprintf("%s: HasNext is true after the stream ended", where))
		}
		if !ended && len(o.Writes) == 0 {
			// the stream failed before the first reply: legitimate when the deadline passed or the context was cancelled
			// while waiting for a pooled connection, or when the server dropped the connection before the batch was written
			hasFault := false
			for _, cm := range op.Cmds {
				hasFault = hasFault || cm.Fault != ""
			}
			switch {
			case dl >= 0 && c29IsTimeout(o.StreamErr):
			case op.Ctx == "cancel-mid" && errors.Is(o.StreamErr, context.Canceled) && sum.conn < 0:
			case hasFault && o.StreamErr != nil && !errors.Is(o.StreamErr, io.EOF):
			default:
				fail("C29.unexpected-error", fmt.Sprintf("%s: the stream could not be started: %v", where, o.StreamErr))
			}
			if o.ExtraDone && (o.ExtraErr == nil || o.ExtraN != 0 || o.ExtraGot != 0) {
				fail("C29.stream-error", fmt.Sprintf("%s: WriteTo on a stream that could not be started returned (%d, %v) and wrote %d bytes", where, o.ExtraN, o.ExtraErr, o.ExtraGot))
			}
			sum.clean = false
			class["unclean-start"] = true
		} else if ended {
			if o.StreamErr == nil || errors.Is(o.StreamErr, io.EOF) && !errors.Is(termErr, io.EOF) {
				fail("C29.stream-error", fmt.Sprintf("%s: Error() = %v after reply failed with %v", where, o.StreamErr, termErr))
			}
			if o.ExtraDone && (o.ExtraErr == nil || o.ExtraN != 0 || o.ExtraGot != 0) {
				fail("C29.stream-error", fmt.Sprintf("%s: WriteTo after the failure returned (%d, %v) and wrote %d bytes", where, o.ExtraN, o.ExtraErr, o.ExtraGot))
			}
		} else {
			if !errors.Is(o.StreamErr, io.EOF) {
				fail("C29.eof-after-last", fmt.Sprintf("%s: Error() = %v after the last reply, want io.EOF", where, o.StreamErr))
			}
			if o.ExtraDone && (!errors.Is(o.ExtraErr, io.EOF) || o.ExtraN != 0 || o.ExtraGot != 0) {
				fail("C29.eof-after-last", fmt.Sprintf("%s: WriteTo after the last reply returned (%d, %v) and wrote %d bytes, want (0, io.EOF)", where, o.ExtraN, o.ExtraErr, o.ExtraGot))
			}
			if o.ExtraDone {
				class["extra-writeto"] = true
			}
		}
		if len(op.Cmds) > 1 {
			class["multi-stream"] = true
		}
		sums = append(sums, sum)
	}
	if taintSeq >= 0 {
		if knownTaint {
			return false, nil
		}
		afterTaint = true
	} else {
		afterTaint = false
	}

	// connection recycling, from the server's log
	isStreamConn := func(id int) bool { return id >= run.NPipeline }
	byConn := map[int][]opSummary{}
	for _, s := range sums {
		if s.conn >= 0 && isStreamConn(s.conn) {
			byConn[s.conn] = append(byConn[s.conn], s)
		}
	}
	uncleanOps := 0
	for _, s := range sums {
		if !s.clean {
			uncleanOps++
		}
	}
	for id, ss := range byConn {
		ci := conns[id]
		sort.SliceStable(ss, func(i, j int) bool { return ss[i].firstSeq < ss[j].firstSeq })
		for k, s := range ss {
			op := plan.Callers[s.o.Caller][s.o.Op]
			where := fmt.Sprintf("caller %d op %d (%s) on c%d", s.o.Caller, s.o.Op, op.Kind, id)
			if k > 0 {
				prev := ss[k-1]
				if s.firstUs < prev.o.EndUs {
					fail("C29.exclusive-use", fmt.Sprintf("%s: its commands were received at +%dus while caller %d op %d, which ended at +%dus, was still reading from that connection", where, s.firstUs, prev.o.Caller, prev.o.Op, prev.o.EndUs))
				}
				if !prev.clean {
					fail("C29.closed-when-unclean", fmt.Sprintf("%s: uses the connection on which caller %d op %d could not consume a reply completely", where, prev.o.Caller, prev.o.Op))
				}
			}
			if !s.clean {
				if ci.closeUs < 0 || ci.closeUs > s.o.EndUs {
					fail("C29.closed-when-unclean", fmt.Sprintf("%s: a reply could not be consumed completely, but the connection was not closed by the time the stream ended (+%dus; server saw close at %dus)", where, s.o.EndUs, ci.closeUs))
				}
			} else if ci.closeUs >= 0 && ci.closeUs < run.CloseUs {
				// closed before the client was closed: only legitimate after a later unclean stream on it
				laterUnclean := false
				for _, s2 := range ss[k+1:] {
					if !s2.clean {
						laterUnclean = true
					}
				}
				// a call that acquired this connection but could not even write its commands (deadline reached while it
				// waited for the pool) closes it without the server ever seeing that call
				for _, s2 := range sums {
					if !s2.clean && s2.conn < 0 && s2.o.StartUs <= ci.closeUs && ci.closeUs <= s2.o.EndUs {
						laterUnclean = true
						class["closed-by-call-that-could-not-start"] = true
					}
				}
				if !laterUnclean {
					fail("C29.recycled-when-clean", fmt.Sprintf("%s: every reply was consumed, yet the connection was closed at +%dus (%s) instead of being kept in the pool", where, ci.closeUs, ci.closeNote))
				}
			}
		}
	}
	// a sequential caller that is alone gets the same connection again after a clean stream
	if len(plan.Callers) == 1 {
		var prev *opSummary
		for i := range sums {
			s := &sums[i]
			if s.conn < 0 && !s.clean {
				prev = nil // it may have closed the pooled connection it was given
			}
			if s.conn < 0 || !isStreamConn(s.conn) {
				continue
			}
			if prev != nil && prev.clean && s.conn != prev.conn {
				fail("C29.recycled-when-clean", fmt.Sprintf("caller 0 op %d used connection c%d although op %d had consumed every reply on c%d: the pooled connection was not reused", s.o.Op, s.conn, prev.o.Op, prev.conn))
			}
			if prev != nil {
				class["second-stream-after-"+map[bool]string{true: "clean", false: "unclean"}[prev.clean]] = true
			}
			prev = s
		}
	}
	// never more than BlockingPoolSize stream connections at once; closes logged at the same virtual instant
	// as an open are processed first (the server logs a close from its reader goroutine)
	type oc struct {
		at    int64
		delta int
	}
	var ocs []oc
	opened := 0
	for id, ci := range conns {
		if !isStreamConn(id) {
			continue
		}
		opened++
		ocs = append(ocs, oc{ci.openUs, 1})
		if ci.closeUs >= 0 {
			ocs = append(ocs, oc{ci.closeUs, -1})
		}
	}
	sort.SliceStable(ocs, func(i, j int) bool {
		if ocs[i].at != ocs[j].at {
			return ocs[i].at < ocs[j].at
		}
		return ocs[i].delta < ocs[j].delta
	})
	cur, maxOpen := 0, 0
	for _, x := range ocs {
		cur += x.delta
		if cur > maxOpen {
			maxOpen = cur
		}
	}
	if maxOpen > plan.PoolSize {
		fail("C29.pool-cap", fmt.Sprintf("%d stream connections were open at the same time with BlockingPoolSize %d", maxOpen, plan.PoolSize))
	}
	if bound := min(plan.PoolSize, len(plan.Callers)) + uncleanOps; opened > bound {
		fail("C29.recycled-when-clean", fmt.Sprintf("%d stream connections were opened; %d callers, BlockingPoolSize %d and %d streams that ended unclean justify at most %d", opened, len(plan.Callers), plan.PoolSize, uncleanOps, bound))
	}
	if maxOpen == plan.PoolSize && len(plan.Callers) > plan.PoolSize {
		class["pool-exhausted"] = true
	}
	if failedNonLast {
		class["failure-on-non-last-reply"] = true
	}
	return failedNonLast || bigPayload || chunkedRead, nil
}

func TestVerif_C29_Streaming(t *testing.T) {
	c := stat.For("C29", "streaming-"+queueLabel()).Rule("timed plans in a synctest bubble against the fake server: 1-3 callers x 1-4 calls from {DoStream, DoMultiStream(1-5), plain Do} of VREPLY commands whose replies are blob 0-200 KiB, chunked blob, verbatim, simple, integer, double, big number, null (3 encodings), simple/blob error, array/map/set, optionally attribute-prefixed (RESP2 subset with AlwaysRESP2); consumer pauses, server latency, a writer that fails after n bytes (short write or full-accept), server drops the connection mid-reply or before replying, done / deadline / later-cancelled contexts, BlockingPoolSize 1-2, DisableAutoPipelining on/off, optional extra WriteTo after the end; oracle: bytes given to the writer == generated payload and n == their count, nil/error/aggregate replies reported as errors with one WriteTo per command, HasNext true exactly while replies remain, io.EOF after the last, server log: stream connection reused after a clean stream, closed by the end of an unclean one and never reused, at most BlockingPoolSize open, no two calls on one connection at once, each command received once; a leaked connection shows as a hang; non-trivial = a failure on a non-last reply of a multi stream, or a streamed payload > 64 KiB, or a chunked blob")
	defer c.Flush()
	if p := os.Getenv("VERIF_REPLAY_JSON"); p != "" {
		var plan c29Plan
		b, _ := os.ReadFile(p)
		if err := json.Unmarshal(b, &plan); err != nil {
			t.Fatal(err)
		}
		run := c29RunPlan(t, plan)
		for _, e := range run.Events {
			e.Argv = trunc(e.Argv)
			if e.Reply != nil && len(e.Reply.S) > 40 {
				r := *e.Reply
				r.S = r.S[:40] + "..."
				e.Reply = &r
			}
			t.Log(e)
		}
		for _, o := range run.Obs {
			t.Logf("caller %d op %d: +%d..+%dus done=%v streamErr=%v hasNextAfter=%v extra=(%d,%v)", o.Caller, o.Op, o.StartUs, o.EndUs, o.Done, o.StreamErr, o.HasNextAfter, o.ExtraN, o.ExtraErr)
			for i, wr := range o.Writes {
				t.Logf("   write %d: n=%d err=%v got=%s +%d..+%dus", i, wr.N, wr.Err, c29Short(wr.Got), wr.StartUs, wr.EndUs)
			}
		}
		t.Log(run.Res)
		c29Check(c, t, plan, run)
		return
	}
	rapid.Check(t, func(rt *rapid.T) {
		plan := genC29Plan(rt)
		saveCase("c29", plan)
		run := c29RunPlan(t, plan)
		if run.Res.Frozen {
			c.Inconclusive("virtual-clock-freeze")
			return
		}
		nt, classes := c29Check(c, rt, plan, run)
		key, _ := json.Marshal(plan)
		c.Eval(nt, string(key), classes...)
		c.Sample(nt, func() any { return plan })
	})
}
