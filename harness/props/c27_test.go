package props

import (
	"context"
	"encoding/json"
	"fmt"
	"math"
	"os"
	"sort"
	"strconv"
	"strings"
	"sync"
	"testing"
	"time"

	"github.com/redis/rueidis"
	"pgregory.net/rapid"
	"verif/harness/sim"
	"verifkit/bubble"
	"verifkit/fakeredis"
	"verifkit/stat"
)

// C27 "Invalidation callbacks observe exactly the server's invalidations".
//
// Variant "option": single client with ClientOption.OnInvalidations, one pipeline connection at a time. The plan is a
// list of phases; every phase but the last ends with all connections killed (the next phase starts a virtual
// millisecond later and the client reconnects lazily with its first command), the last one ends with Client.Close or
// with a kill followed by Close. Callbacks are attributed to phases (= connections) by their virtual time: nothing
// happens in the gap between two phases.
//
// Variant "dedicated": no client-wide callback; a dedicated client installs one with SetOnInvalidations, reads keys
// (CLIENT CACHING YES + GET in OPTIN mode), and is released (then a blocking-tagged command re-uses the pooled
// connection, BlockingPoolSize 1), closed, or its connection is killed.
//
// Variant "both": the dedicated plan with ClientOption.OnInvalidations set as well. handlePush reports every push of a
// connection to the client-wide callback AND to the hook installed on that connection, so the client-wide callback
// (attached to the pipeline connection and to the dedicated one) must see the pushes of both connections.
//
// DisableCache dimension (all variants): no CLIENT TRACKING in the handshake; the application sends CLIENT TRACKING ON
// itself (the documented use of SetOnInvalidations). The final nil is due exactly as with the built-in cache.
//
// Oracle: callback arguments of a connection == invalidate pushes in the server's log for that connection (keys in
// wire order, nil for the null invalidation) + exactly one nil when the connection is lost while the callback is
// installed. Pushes sent in the same virtual microsecond in which the connection was opened (the handshake reads
// synchronously and drops pushes, the callback is installed afterwards), lost or released are races: optional.

type c27Op struct {
	AtUs int      `json:"at_us"` // relative to the phase start
	Kind string   `json:"kind"`  // cache multicache (main client reads) dread (dedicated read) track (CLIENT TRACKING ON through the main client, DisableCache plans)
	Keys []string `json:"keys"`
}

type c27Ext struct {
	AtUs int      `json:"at_us"`
	Kind string   `json:"kind"` // set del flush setpx pushmulti
	Keys []string `json:"keys,omitempty"`
	PxMs int      `json:"px_ms,omitempty"`
	Main bool     `json:"main,omitempty"` // pushmulti in a plan with both callbacks: frame goes to the pipeline connection instead of the dedicated one
}

type c27Phase struct {
	Ops   []c27Op  `json:"ops,omitempty"`
	Exts  []c27Ext `json:"exts,omitempty"`
	EndUs int      `json:"end_us"` // relative instant of the phase's end
	End   string   `json:"end"`    // kill close | dedicated: release kill dclose
}

type c27Plan struct {
	Mode      string     `json:"mode"` // optin optout bcast
	Dedicated bool       `json:"dedicated"`
	Both      bool       `json:"both,omitempty"`     // dedicated plan that ALSO sets ClientOption.OnInvalidations: two callbacks
	NoCache   bool       `json:"no_cache,omitempty"` // DisableCache: the application sends CLIENT TRACKING ON itself
	Lats      []int      `json:"lats_us"`
	Phases    []c27Phase `json:"phases"`
	ReuseUs   int        `json:"reuse_us,omitempty"` // dedicated+release: a blocking-tagged command is issued this long after the release
}

const c27GapUs = 1000

type c27CB struct {
	At   int64
	Nil  bool
	Keys []string
}

func (c c27CB) String() string {
	if c.Nil {
		return fmt.Sprintf("nil@%d", c.At)
	}
	return fmt.Sprintf("%v@%d", c.Keys, c.At)
}

type c27PhaseObs struct {
	BaseUs int64 // start of the phase
	EndAt  int64 // instant the ending action was issued
}

type c27Obs struct {
	CBs      []c27CB // ClientOption.OnInvalidations
	HookCBs  []c27CB // SetOnInvalidations
	Phases   []c27PhaseObs
	DedConn  int
	ReuseAt  int64
	CloseAt  int64 // instant of the final Client.Close
	CloseOK  bool
	Finished bool
	Events   []fakeredis.Event
}

func c27Latency(lats []int) func(c *fakeredis.Conn, req int, argv []string) time.Duration {
	var mu sync.Mutex
	n := 0
	return func(c *fakeredis.Conn, req int, argv []string) time.Duration {
		if c.BurstIdx != 0 || len(lats) == 0 {
			return 0
		}
		caching := len(argv) == 3 && strings.EqualFold(argv[0], "CLIENT") && strings.EqualFold(argv[1], "CACHING")
		if caching || argv[0] == "ECHO" || argv[0] == "GET" {
			mu.Lock()
			d := lats[n%len(lats)]
			n++
			mu.Unlock()
			return time.Duration(d) * time.Microsecond
		}
		return 0
	}
}

func c27Run(t *testing.T, plan c27Plan) (res bubble.Result, o *c27Obs) {
	o = &c27Obs{DedConn: -1, ReuseAt: -1, CloseAt: -1, Phases: make([]c27PhaseObs, len(plan.Phases))}
	var mu sync.Mutex
	res = bubble.Run(t, func() {
		w := fakeredis.NewWorld()
		srv := w.NewServer("127.0.0.1:6379")
		srv.Hooks.Latency = c27Latency(plan.Lats)
		for _, k := range []string{"k1", "k2", "k3", "x1"} {
			srv.Do("SET", k, "v0")
		}
		opt := sim.Option(w, "127.0.0.1:6379")
		opt.ForceSingleClient = true
		opt.PipelineMultiplex = -1
		opt.DisableRetry = true
		opt.BlockingPoolSize = 1
		if queueLabel() == "ring" {
			opt.WriteBufferEachConn = 1 << 20
		}
		trackOpts := []string{"OPTIN"}
		switch plan.Mode {
		case "optout":
			trackOpts = []string{"OPTOUT"}
		case "bcast":
			trackOpts = []string{"BCAST", "PREFIX", "k"}
		}
		if plan.NoCache {
			opt.DisableCache = true // no CLIENT TRACKING in the handshake: the application switches it on
		} else if plan.Mode != "optin" {
			opt.ClientTrackingOptions = trackOpts
		}
		recorder := func(dst *[]c27CB) func(ms []rueidis.RedisMessage) {
			return func(ms []rueidis.RedisMessage) {
				cb := c27CB{At: w.Since(), Nil: ms == nil}
				for _, m := range ms {
					s, err := m.ToString()
					if err != nil {
						s = "<" + err.Error() + ">"
					}
					cb.Keys = append(cb.Keys, s)
				}
				mu.Lock()
				*dst = append(*dst, cb)
				mu.Unlock()
			}
		}
		if !plan.Dedicated || plan.Both {
			opt.OnInvalidations = recorder(&o.CBs)
		}
		client, err := rueidis.NewClient(opt)
		if err != nil {
			panic(fmt.Sprintf("harness: NewClient failed: %v", err))
		}
		sleepUntil := func(us int64) {
			if d := us - w.Since(); d > 0 {
				time.Sleep(time.Duration(d) * time.Microsecond)
			}
		}
		var wg sync.WaitGroup
		spawn := func(f func()) {
			wg.Add(1)
			go func() { defer wg.Done(); f() }()
		}
		var d rueidis.DedicatedClient
		release := func() {}
		target := func(main bool) int { // connection that gets scenario-made multi-key frames
			if plan.Dedicated && !(plan.Both && main) {
				return o.DedConn
			}
			if l := srv.LiveConns(); len(l) > 0 {
				return l[0].ID
			}
			return -1
		}
		if plan.Dedicated {
			before := len(srv.Conns())
			d, release = client.Dedicate()
			if cs := srv.Conns(); len(cs) == before+1 {
				o.DedConn = cs[before].ID
			}
			d.SetOnInvalidations(recorder(&o.HookCBs))
			if plan.NoCache {
				d.Do(context.Background(), client.B().Arbitrary("CLIENT", "TRACKING", "ON").Args(trackOpts...).Build())
			}
		}
		caching := func() rueidis.Completed { return client.B().Arbitrary("CLIENT", "CACHING", "YES").Build() }
		closed := false
		base := int64(0)
		for pi, ph := range plan.Phases {
			pi, ph, b := pi, ph, base
			o.Phases[pi].BaseUs = b
			for _, op := range ph.Ops {
				op := op
				spawn(func() {
					sleepUntil(b + int64(op.AtUs))
					ctx := context.Background()
					switch {
					case op.Kind == "track":
						client.Do(ctx, client.B().Arbitrary("CLIENT", "TRACKING", "ON").Args(trackOpts...).Build())
						return
					case plan.NoCache && op.Kind != "dread":
						// no built-in cache: plain reads; in OPTIN mode the application announces each of them
						// (stop at the first transport error: nothing may be issued once the phase's connection is gone)
						for _, k := range op.Keys {
							if plan.Mode == "optin" {
								if rs := client.DoMulti(ctx, caching(), client.B().Get().Key(k).Build()); rs[0].NonRedisError() != nil || rs[1].NonRedisError() != nil {
									return
								}
							} else if client.Do(ctx, client.B().Get().Key(k).Build()).NonRedisError() != nil {
								return
							}
						}
						return
					}
					switch op.Kind {
					case "cache":
						client.DoCache(ctx, client.B().Get().Key(op.Keys[0]).Cache(), time.Minute)
					case "multicache":
						cts := make([]rueidis.CacheableTTL, len(op.Keys))
						for i, k := range op.Keys {
							cts[i] = rueidis.CT(client.B().Get().Key(k).Cache(), time.Minute)
						}
						client.DoMultiCache(ctx, cts...)
					case "dread":
						if plan.Mode == "optin" {
							d.DoMulti(ctx, caching(), client.B().Get().Key(op.Keys[0]).Build())
						} else {
							d.Do(ctx, client.B().Get().Key(op.Keys[0]).Build())
						}
					}
				})
			}
			for xi, e := range ph.Exts {
				xi, e := xi, e
				spawn(func() {
					sleepUntil(b + int64(e.AtUs))
					val := fmt.Sprintf("v%d.%d", pi, xi)
					switch e.Kind {
					case "set":
						srv.Do("SET", e.Keys[0], val)
					case "del":
						srv.Do(append([]string{"DEL"}, e.Keys...)...)
					case "flush":
						srv.Do("FLUSHALL")
					case "setpx":
						srv.Do("SET", e.Keys[0], val, "PX", strconv.Itoa(e.PxMs))
					case "pushmulti":
						srv.PushInvalidate(target(e.Main), e.Keys)
					}
				})
			}
			spawn(func() {
				sleepUntil(b + int64(ph.EndUs))
				mu.Lock()
				o.Phases[pi].EndAt = w.Since()
				mu.Unlock()
				switch ph.End {
				case "kill":
					for _, c := range srv.LiveConns() {
						c.Kill()
					}
				case "close":
					ok := sim.CallTimeout(time.Minute, client.Close)
					mu.Lock()
					o.CloseAt, o.CloseOK, closed = o.Phases[pi].EndAt, ok, true
					mu.Unlock()
				case "release":
					release()
				case "dclose":
					d.Close()
				}
			})
			if plan.Dedicated && ph.End == "release" && plan.ReuseUs > 0 {
				spawn(func() {
					sleepUntil(b + int64(ph.EndUs) + int64(plan.ReuseUs))
					mu.Lock()
					o.ReuseAt = w.Since()
					mu.Unlock()
					client.Do(context.Background(), client.B().Arbitrary("VREPLY").Args("reuse", "+OK\r\n", "0").Blocking())
				})
			}
			base = b + int64(ph.EndUs) + c27GapUs
		}
		o.Finished = sim.WaitTimeout(&wg, 2*time.Minute)
		sleepUntil(base + c27GapUs)
		sim.CallTimeout(time.Minute, release)
		mu.Lock()
		cl := closed
		mu.Unlock()
		if !cl {
			at := w.Since()
			ok := sim.CallTimeout(time.Minute, client.Close)
			mu.Lock()
			o.CloseAt, o.CloseOK = at, ok
			mu.Unlock()
		}
		time.Sleep(2 * time.Second)
		w.Stop()
		o.Events = w.Snapshot()
		time.Sleep(5 * time.Second)
		if !o.Finished {
			sim.WaitTimeout(&wg, time.Minute)
		}
	})
	return
}

// ---- oracle

type c27Exp struct {
	Nil  bool
	Keys []string
	Opt  bool
	At   int64
}

func (e c27Exp) String() string {
	s := fmt.Sprintf("%v@%d", e.Keys, e.At)
	if e.Nil {
		s = fmt.Sprintf("nil@%d", e.At)
	}
	if e.Opt {
		s += "?"
	}
	return s
}

// c27Match: got must be pattern with any of the optional elements left out.
func c27Match(got []c27CB, pat []c27Exp) bool {
	memo := map[[2]int]bool{}
	var f func(i, j int) bool
	f = func(i, j int) bool {
		if i == len(got) {
			for ; j < len(pat); j++ {
				if !pat[j].Opt {
					return false
				}
			}
			return true
		}
		if j == len(pat) {
			return false
		}
		k := [2]int{i, j}
		if v, ok := memo[k]; ok {
			return v
		}
		eq := got[i].Nil == pat[j].Nil && strings.Join(got[i].Keys, "\x00") == strings.Join(pat[j].Keys, "\x00") && len(got[i].Keys) == len(pat[j].Keys)
		r := (eq && f(i+1, j+1)) || (pat[j].Opt && f(i, j+1))
		memo[k] = r
		return r
	}
	return f(0, 0)
}

// c27Shuffle: got must be an interleaving of the patterns, each with any of its optional elements left out.
func c27Shuffle(got []c27CB, pats [][]c27Exp) bool {
	memo := map[string]bool{}
	idx := make([]int, len(pats))
	eq := func(g c27CB, e c27Exp) bool {
		return g.Nil == e.Nil && len(g.Keys) == len(e.Keys) && strings.Join(g.Keys, "\x00") == strings.Join(e.Keys, "\x00")
	}
	var f func(i int) bool
	f = func(i int) bool {
		key := fmt.Sprint(i, idx)
		if v, ok := memo[key]; ok {
			return v
		}
		r := false
		if i == len(got) {
			r = true
			for k, p := range pats {
				for j := idx[k]; j < len(p); j++ {
					if !p[j].Opt {
						r = false
					}
				}
			}
		} else {
			for k, p := range pats {
				j := idx[k]
				if j == len(p) {
					continue
				}
				idx[k]++
				if (eq(got[i], p[j]) && f(i+1)) || (p[j].Opt && f(i)) {
					r = true
				}
				idx[k]--
				if r {
					break
				}
			}
		}
		memo[key] = r
		return r
	}
	return f(0)
}

type c27Push struct {
	Seq, At int64
	Nil     bool
	Keys    []string
}

func c27ConnLog(events []fakeredis.Event, conn int) (openAt, closeAt int64, pushes []c27Push) {
	openAt, closeAt = -1, -1
	for _, e := range events {
		if e.Conn != conn {
			continue
		}
		switch e.Kind {
		case "open":
			openAt = e.At
		case "close":
			if closeAt < 0 {
				closeAt = e.At
			}
		case "push":
			if e.Reply == nil || e.Reply.T != '>' || len(e.Reply.A) < 2 || e.Reply.A[0].S != "invalidate" {
				continue
			}
			p := c27Push{Seq: e.Seq, At: e.At, Nil: e.Reply.A[1].T == '_'}
			for _, k := range e.Reply.A[1].A {
				p.Keys = append(p.Keys, k.S)
			}
			pushes = append(pushes, p)
		}
	}
	return
}

// c27Pattern: pushes of a connection whose callback was installed at (about) openAt and is lost/removed in
// [endLo, endHi]; finalNil: a last nil is due.
func c27Pattern(pushes []c27Push, openAt, endLo, endHi int64, finalNil bool) (pat []c27Exp) {
	for _, p := range pushes {
		switch {
		case p.At > endHi:
			continue
		case p.At <= openAt || p.At >= endLo:
			pat = append(pat, c27Exp{Nil: p.Nil, Keys: p.Keys, Opt: true, At: p.At})
		default:
			pat = append(pat, c27Exp{Nil: p.Nil, Keys: p.Keys, At: p.At})
		}
	}
	if finalNil {
		pat = append(pat, c27Exp{Nil: true, At: endLo})
	}
	return
}

func c27Check(c *stat.Collector, rt stat.Fataler, plan c27Plan, res bubble.Result, o *c27Obs) (nt bool, classes []string) {
	cl := map[string]bool{"mode-" + plan.Mode: true}
	if !o.Finished || res.Deadlock || res.Leak {
		c.Fail(rt, "C27.no-hang", fmt.Sprintf("calls never returned (%s)", res), plan)
	}
	if res.Panic != nil {
		c.Fail(rt, "C27.no-panic", res.String(), plan)
	}
	if !o.CloseOK {
		c.Fail(rt, "C27.close-returns", "Client.Close did not return within a virtual minute", plan)
	}
	inf := int64(math.MaxInt64)
	nPush, flush, multi, expiry, killAfterCB := 0, false, false, false, false
	count := func(ps []c27Push, lo, hi int64) (n int) {
		for _, p := range ps {
			if p.At >= lo && p.At <= hi {
				n++
				nPush++
				if p.Nil {
					flush = true
				}
				if len(p.Keys) > 1 {
					multi = true
				}
			}
		}
		return
	}
	for _, e := range o.Events {
		if e.Kind == "exec" && len(e.Argv) > 0 && e.Argv[0] == "<expire>" {
			expiry = true
		}
	}
	show := func(pat []c27Exp) string {
		var s []string
		for _, p := range pat {
			s = append(s, p.String())
		}
		return "[" + strings.Join(s, " ") + "]"
	}
	if plan.Dedicated {
		cl["dedicated"] = true
		ph, po := plan.Phases[0], o.Phases[0]
		cl["ded-"+ph.End] = true
		if o.DedConn < 0 {
			c.Inconclusive("dedicated-connection-not-identified")
			return false, nil
		}
		openAt, closeAt, pushes := c27ConnLog(o.Events, o.DedConn)
		var pat []c27Exp
		switch ph.End {
		case "release":
			pat = c27Pattern(pushes, openAt, po.EndAt, po.EndAt, false)
		case "kill":
			pat = c27Pattern(pushes, openAt, po.EndAt, po.EndAt, true)
		case "dclose":
			hi := inf
			if closeAt >= po.EndAt {
				hi = closeAt
			}
			// DedicatedClient.Close closes the connection and releases the client in one call: the release removes the
			// callback while the connection's reader is still winding down, so the last nil is a same-instant race
			pat = append(c27Pattern(pushes, openAt, po.EndAt, hi, false), c27Exp{Nil: true, Opt: true, At: po.EndAt})
		}
		if !c27Match(o.HookCBs, pat) {
			c.Fail(rt, "C27.callbacks-equal-pushes", fmt.Sprintf("SetOnInvalidations callback of the dedicated client (server connection %d, %s at +%dus) was called with %v; the server's pushes on that connection (+ final nil; ?=same-instant race, optional) are %s", o.DedConn, ph.End, po.EndAt, o.HookCBs, show(pat)), plan)
		}
		n := count(pushes, 0, po.EndAt)
		if ph.End == "kill" && n > 0 {
			killAfterCB = true
		}
		if plan.NoCache && ph.End == "kill" {
			cl["nocache-final-nil-due"] = true
		}
		if plan.Both {
			// The client-wide callback is attached to EVERY connection of the client (handlePush calls it and the hook):
			// its argument sequence must be an interleaving of the complete push sequences (+ final nil at the loss) of all
			// connections the client opened; the callback cannot tell connections apart, so any interleaving is accepted.
			cl["both-callbacks"] = true
			var pats [][]c27Exp
			var desc []string
			for _, e := range o.Events {
				if e.Kind != "open" {
					continue
				}
				oa, ca, ps := c27ConnLog(o.Events, e.Conn)
				// what takes this connection away: the earliest of kill / DedicatedClient.Close (its own connection) / Client.Close
				lo := inf
				if ph.End == "kill" && po.EndAt >= oa {
					lo = po.EndAt
				}
				if ph.End == "dclose" && e.Conn == o.DedConn {
					lo = po.EndAt
				}
				if o.CloseAt >= 0 && o.CloseAt < lo {
					lo = o.CloseAt
				}
				hi := inf
				if ca >= 0 {
					hi = ca
				}
				if hi < lo {
					lo = hi
				}
				pt := c27Pattern(ps, oa, lo, hi, true)
				pats = append(pats, pt)
				desc = append(desc, fmt.Sprintf("connection %d: %s", e.Conn, show(pt)))
				if e.Conn == o.DedConn {
					for _, x := range pt[:len(pt)-1] {
						if !x.Opt {
							cl["both-with-dedicated-push"] = true
						}
					}
				} else {
					count(ps, 0, lo)
					for _, x := range pt[:len(pt)-1] {
						if !x.Opt {
							cl["both-with-pipeline-push"] = true
						}
					}
				}
			}
			if !c27Shuffle(o.CBs, pats) {
				c.Fail(rt, "C27.callbacks-equal-pushes", fmt.Sprintf("ClientOption.OnInvalidations (attached to every connection; a dedicated client with SetOnInvalidations exists on server connection %d, %s at +%dus) was called with %v; it must be an interleaving of the pushes + final nil of each connection (?=same-instant race, optional): %s", o.DedConn, ph.End, po.EndAt, o.CBs, strings.Join(desc, "; ")), plan)
			}
		}
		// tracking must be off before the pooled connection serves another user command
		if ph.End == "release" {
			off := false
			for _, e := range o.Events {
				if e.Conn != o.DedConn || e.Kind != "recv" || e.At < po.EndAt {
					continue
				}
				if len(e.Argv) == 3 && strings.EqualFold(e.Argv[0], "CLIENT") && strings.EqualFold(e.Argv[1], "TRACKING") && strings.EqualFold(e.Argv[2], "OFF") {
					off = true
				}
				if e.Argv[0] == "VREPLY" {
					cl["ded-connection-reused"] = true
					if !off {
						c.Fail(rt, "C27.tracking-off-before-reuse", fmt.Sprintf("the dedicated client (server connection %d) was released at +%dus; the next user command %q reached that connection at +%dus without a CLIENT TRACKING OFF before it", o.DedConn, po.EndAt, trunc(e.Argv), e.At), plan)
					}
				}
			}
		}
	} else {
		// connections in opening order, attributed to the phase whose window contains the opening instant
		connOf := map[int]int{}
		for _, e := range o.Events {
			if e.Kind != "open" {
				continue
			}
			for pi := range plan.Phases {
				if e.At >= o.Phases[pi].BaseUs && e.At <= o.Phases[pi].EndAt {
					if _, dup := connOf[pi]; dup {
						c.Inconclusive("two-connections-in-one-phase")
						return false, nil
					}
					connOf[pi] = e.Conn
				}
			}
		}
		lo := int64(-1)
		for pi, ph := range plan.Phases {
			po := o.Phases[pi]
			hiT := po.EndAt
			last := pi == len(plan.Phases)-1
			if last {
				hiT = inf
			}
			var got []c27CB
			for _, cb := range o.CBs {
				if cb.At > lo && cb.At <= hiT {
					got = append(got, cb)
				}
			}
			lo = hiT
			conn, has := connOf[pi]
			if !has {
				if len(got) > 0 {
					c.Fail(rt, "C27.callbacks-equal-pushes", fmt.Sprintf("phase %d had no connection but OnInvalidations was called with %v", pi, got), plan)
				}
				continue
			}
			openAt, closeAt, pushes := c27ConnLog(o.Events, conn)
			endLo, endHi := po.EndAt, po.EndAt
			if ph.End == "close" {
				endHi = inf
				if closeAt >= endLo {
					endHi = closeAt
				}
			}
			pat := c27Pattern(pushes, openAt, endLo, endHi, true)
			if !c27Match(got, pat) {
				c.Fail(rt, "C27.callbacks-equal-pushes", fmt.Sprintf("phase %d (server connection %d, opened +%dus, %s at +%dus): OnInvalidations was called with %v; the server's pushes on that connection + the final nil (?=same-instant race, optional) are %s", pi, conn, openAt, ph.End, po.EndAt, got, show(pat)), plan)
			}
			n := count(pushes, 0, po.EndAt)
			if ph.End == "kill" && n > 0 {
				killAfterCB = true
			}
		}
		if len(plan.Phases) > 1 {
			cl["reconnect-phases"] = true
		}
		if plan.NoCache {
			cl["nocache-final-nil-due"] = true
		}
	}
	cl["no-cache"] = plan.NoCache
	cl["pushes>=3"] = nPush >= 3
	cl["pushes=0"] = nPush == 0
	cl["flush-push"] = flush
	cl["multi-key-push"] = multi
	cl["expiry"] = expiry
	cl["kill-after-callbacks"] = killAfterCB
	for k, v := range cl {
		if v {
			classes = append(classes, k)
		}
	}
	sort.Strings(classes)
	return (nPush >= 3 && flush && multi) || killAfterCB, classes
}

// ---- generator

func genC27Plan(rt *rapid.T) c27Plan {
	var p c27Plan
	p.Mode = rapid.SampledFrom([]string{"optin", "optin", "optout", "bcast"}).Draw(rt, "mode")
	p.Dedicated = rapid.IntRange(0, 2).Draw(rt, "dedicated") == 0
	p.Both = p.Dedicated && rapid.Bool().Draw(rt, "both")
	p.NoCache = rapid.IntRange(0, 2).Draw(rt, "noCache") == 0
	p.Lats = rapid.SliceOfN(rapid.SampledFrom([]int{0, 0, 0, 200, 1000}), 1, 3).Draw(rt, "lats")
	keys := []string{"k1", "k2", "k3", "x1"}
	key := func(label string) string { return rapid.SampledFrom(keys).Draw(rt, label) }
	np := 1
	if !p.Dedicated {
		np = rapid.SampledFrom([]int{1, 1, 2, 2, 3}).Draw(rt, "phases")
	}
	for pi := 0; pi < np; pi++ {
		ph := c27Phase{EndUs: rapid.IntRange(2000, 6000).Draw(rt, "endUs")}
		at := func(label string) int { return c26Time(rt, label, 0, ph.EndUs-1) }
		if p.Dedicated {
			ph.End = rapid.SampledFrom([]string{"release", "release", "kill", "dclose"}).Draw(rt, "dedEnd")
		} else if pi < np-1 {
			ph.End = "kill"
		} else {
			ph.End = rapid.SampledFrom([]string{"close", "close", "kill"}).Draw(rt, "lastEnd")
		}
		if p.NoCache && (!p.Dedicated || p.Both) {
			// the application switches tracking on for the pipeline connection itself (again after every reconnect)
			ph.Ops = append(ph.Ops, c27Op{AtUs: 0, Kind: "track"})
		}
		no := rapid.IntRange(1, 8).Draw(rt, "ops")
		for i := 0; i < no; i++ {
			op := c27Op{AtUs: at("opAt")}
			switch {
			case p.Dedicated && !(p.Both && rapid.IntRange(0, 2).Draw(rt, "mainOp") == 0):
				op.Kind, op.Keys = "dread", []string{key("opKey")}
			case rapid.IntRange(0, 3).Draw(rt, "multi") == 0:
				op.Kind = "multicache"
				n := rapid.IntRange(1, 3).Draw(rt, "nkeys")
				for k := 0; k < n; k++ {
					op.Keys = append(op.Keys, key("opKey"))
				}
			default:
				op.Kind, op.Keys = "cache", []string{key("opKey")}
			}
			ph.Ops = append(ph.Ops, op)
		}
		ne := rapid.IntRange(0, 8).Draw(rt, "exts")
		for i := 0; i < ne; i++ {
			e := c27Ext{AtUs: at("extAt"), Kind: rapid.SampledFrom([]string{"set", "set", "del", "del", "flush", "setpx", "pushmulti", "pushmulti"}).Draw(rt, "extKind")}
			switch e.Kind {
			case "set":
				e.Keys = []string{key("extKey")}
			case "setpx":
				e.Keys = []string{key("extKey")}
				e.PxMs = rapid.IntRange(1, 4).Draw(rt, "px")
			case "del":
				n := rapid.IntRange(1, 3).Draw(rt, "ndel")
				for k := 0; k < n; k++ {
					e.Keys = append(e.Keys, key("extKey"))
				}
			case "pushmulti":
				n := rapid.IntRange(2, 3).Draw(rt, "npush")
				for k := 0; k < n; k++ {
					e.Keys = append(e.Keys, key("extKey"))
				}
				e.Main = p.Both && rapid.IntRange(0, 2).Draw(rt, "pushMain") == 0
			}
			ph.Exts = append(ph.Exts, e)
		}
		p.Phases = append(p.Phases, ph)
	}
	if p.Dedicated && p.Phases[0].End == "release" {
		p.ReuseUs = rapid.SampledFrom([]int{0, 1, 1, 300}).Draw(rt, "reuseUs")
	}
	return p
}

func TestVerif_C27_Invalidations(t *testing.T) {
	c := stat.For("C27", "invalidations-"+queueLabel()).Rule("timed plans in a synctest bubble, single client, one pipeline connection, tracking mode OPTIN / OPTOUT / BCAST PREFIX k: (a) ClientOption.OnInvalidations with 1-3 phases of 1-8 DoCache/DoMultiCache reads over 4 keys and 0-8 external events {SET, DEL of 1-3 keys, FLUSHALL, SET PX 1-4 ms (active expiry), scenario-made invalidate frame naming 2-3 keys}, server latency before cache fetches, every phase but the last ended by killing the connection (lazy reconnect a virtual ms later), the last by Close or kill+Close; (b) a dedicated client with SetOnInvalidations reading keys (CLIENT CACHING YES + GET in OPTIN) with the same external events, ended by release (then a blocking-tagged command re-uses the pooled connection, pool size 1), kill or Close of the dedicated client; (c) half of the dedicated plans ALSO set ClientOption.OnInvalidations (two callbacks; reads through both the client and the dedicated client, multi-key frames on either connection); 1 in 3 plans of every variant use DisableCache and switch tracking on themselves (CLIENT TRACKING ON <mode> through the dedicated client, or through the client at the start of every phase; OPTIN reads are announced with CLIENT CACHING YES); oracle from the server's event log: the callback arguments of each connection equal the invalidate pushes sent on it (keys in wire order, nil for the null invalidation) followed by exactly one nil when the connection is lost while the callback is installed (none after a release), pushes in the same virtual microsecond as the connection's opening / loss / release being optional; with both callbacks the client-wide one must have been called with an interleaving of the complete sequences (pushes + final nil at the loss) of every connection the client opened, the dedicated one included; after a release CLIENT TRACKING OFF precedes the next user command on that server connection; no hang, Close returns; non-trivial = at least 3 pushes including a flush and a multi-key frame, or a kill with push callbacks before it")
	defer c.Flush()
	rapid.Check(t, func(rt *rapid.T) {
		plan := genC27Plan(rt)
		saveCase("c27", plan)
		res, o := c27Run(t, plan)
		if res.Frozen {
			c.Inconclusive("virtual-clock-freeze")
			return
		}
		nt, classes := c27Check(c, rt, plan, res, o)
		key, _ := json.Marshal(plan)
		c.Eval(nt, string(key), classes...)
		c.Sample(nt, func() any { return plan })
	})
}

// TestDebug_C27_Replay runs the plan stored in $VERIF_C27_REPLAY (JSON of a c27Plan) once and prints what happened.
func TestDebug_C27_Replay(t *testing.T) {
	f := os.Getenv("VERIF_C27_REPLAY")
	if f == "" {
		t.Skip("VERIF_C27_REPLAY not set")
	}
	b, err := os.ReadFile(f)
	if err != nil {
		t.Fatal(err)
	}
	var plan c27Plan
	if err := json.Unmarshal(b, &plan); err != nil {
		t.Fatal(err)
	}
	res, o := c27Run(t, plan)
	t.Logf("bubble: %s", res)
	for _, e := range o.Events {
		e.Argv = trunc(e.Argv)
		t.Log(e.String())
	}
	t.Logf("option callback %v", o.CBs)
	t.Logf("hook callback %v", o.HookCBs)
	t.Logf("phases %+v dedconn %d reuse %d close %d/%v finished %v", o.Phases, o.DedConn, o.ReuseAt, o.CloseAt, o.CloseOK, o.Finished)
	c := stat.For("C27", "replay")
	c27Check(c, t, plan, res, o)
}
