package props

import (
	"context"
	"fmt"
	"strings"
	"sync"
	"testing"
	"time"

	"github.com/redis/rueidis"
	"pgregory.net/rapid"
	"verif/harness/sim"
	"verifkit/fakeredis"
	"verifkit/stat"
)

// Real time (no bubble): a goroutine blocked on a sync.Mutex is invisible to the bubble's deadlock
// detector, so the one queue deadlock that goes through the ring's slot mutex (writer waiting for the
// slot the reader holds while part of the reader's batch is still in the write buffer) is hunted with
// real goroutines and a generous wall-clock limit: every trial normally ends within milliseconds.
func TestVerif_C02_FullQueuePartialFlush(t *testing.T) {
	c := stat.For("C02", "realtime-"+queueLabel()).Rule("real-time trials against the fake server: ring/flow-buffer of 2-4 slots, write buffer of 32-256 bytes, 2-5 callers issuing 5-20 calls each, one of them DoMulti batches whose encoding exceeds the write buffer (so the batch is flushed piecemeal while the queue is full); oracle: every caller finishes within 10 s of wall-clock time (a trial takes milliseconds); non-trivial = more callers than slots and a batch larger than the write buffer")
	defer c.Flush()
	rapid.Check(t, func(rt *rapid.T) {
		scale := rapid.IntRange(1, 2).Draw(rt, "ringScale")
		wbuf := rapid.SampledFrom([]int{32, 64, 128, 256}).Draw(rt, "writeBuffer")
		callers := rapid.IntRange(2, 5).Draw(rt, "callers")
		calls := rapid.IntRange(5, 20).Draw(rt, "calls")
		big := rapid.SampledFrom([]int{40, 300, 1000}).Draw(rt, "bigArg")
		batch := rapid.IntRange(2, 4).Draw(rt, "batch")
		w := fakeredis.NewWorld()
		w.NewServer("127.0.0.1:6379")
		opt := sim.Option(w, "127.0.0.1:6379")
		opt.ForceSingleClient = true
		opt.RingScaleEachConn = scale
		opt.PipelineMultiplex = -1
		opt.AlwaysPipelining = true
		opt.WriteBufferEachConn = wbuf
		opt.DisableCache = true
		cl, err := rueidis.NewClient(opt)
		if err != nil {
			t.Fatal(err)
		}
		var wg sync.WaitGroup
		arg := strings.Repeat("x", big)
		for k := 0; k < callers; k++ {
			wg.Add(1)
			go func(k int) {
				defer wg.Done()
				for i := 0; i < calls; i++ {
					if k == 0 {
						cmds := make(rueidis.Commands, batch)
						for j := range cmds {
							cmds[j] = cl.B().Set().Key(fmt.Sprintf("b%d", j)).Value(arg).Build()
						}
						cl.DoMulti(context.Background(), cmds...)
					} else {
						cl.Do(context.Background(), cl.B().Get().Key("a").Build())
					}
				}
			}(k)
		}
		done := make(chan struct{})
		go func() { wg.Wait(); close(done) }()
		nt := callers > 2<<(scale-1)/1 && big*batch > wbuf
		plan := map[string]any{"ring_scale": scale, "write_buffer": wbuf, "callers": callers, "calls": calls, "big_arg": big, "batch": batch}
		c.Eval(nt, fmt.Sprint(plan))
		c.Sample(nt, func() any { return plan })
		select {
		case <-done:
			cl.Close()
			w.Stop()
		case <-time.After(10 * time.Second):
			// the client and its goroutines are wedged: leave them behind
			c.Fail(rt, "C02.no-deadlock", fmt.Sprintf("callers were still blocked after 10 s of wall-clock time (%v)", plan), plan)
		}
	})
}
