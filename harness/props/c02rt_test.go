package props

import (
	"context"
	"fmt"
	"runtime"
	"strings"
	"sync"
	"sync/atomic"
	"testing"
	"time"

	"github.com/redis/rueidis"
	"pgregory.net/rapid"
	"verif/harness/sim"
	"verifkit/fakeredis"
	"verifkit/stat"
)

// Real time (no bubble): a goroutine blocked on a sync.Mutex is invisible to the bubble's deadlock
// detector, so the one queue deadlock that goes through the ring's slot mutex (writer waiting for the
// slot the reader holds while part of the reader's batch is still in the write buffer) is hunted with
// real goroutines and a generous wall-clock limit: every trial normally ends within milliseconds.
func TestVerif_C02_FullQueuePartialFlush(t *testing.T) {
	c := stat.For("C02", "realtime-"+queueLabel()).Rule("real-time trials against the fake server: ring/flow-buffer of 2-4 slots, write buffer of 32-256 bytes, 2-5 callers issuing 5-20 calls each, one of them DoMulti batches whose encoding exceeds the write buffer (so the batch is flushed piecemeal while the queue is full); oracle: no state in which no call completes for 20 s while every goroutine of the process is blocked (not running/runnable/sleeping), sampled every 2 s - independent of machine speed; non-trivial = more callers than slots and a batch larger than the write buffer")
	defer c.Flush()
	rapid.Check(t, func(rt *rapid.T) {
		scale := rapid.IntRange(1, 2).Draw(rt, "ringScale")
		wbuf := rapid.SampledFrom([]int{32, 64, 128, 256}).Draw(rt, "writeBuffer")
		callers := rapid.IntRange(2, 5).Draw(rt, "callers")
		calls := rapid.IntRange(5, 20).Draw(rt, "calls")
		big := rapid.SampledFrom([]int{40, 300, 1000}).Draw(rt, "bigArg")
		batch := rapid.IntRange(2, 4).Draw(rt, "batch")
		w := fakeredis.NewWorld()
		w.NewServer("127.0.0.1:6379")
		opt := sim.Option(w, "127.0.0.1:6379")
		opt.ForceSingleClient = true
		opt.RingScaleEachConn = scale
		opt.PipelineMultiplex = -1
		opt.AlwaysPipelining = true
		opt.WriteBufferEachConn = wbuf
		opt.DisableCache = true
		cl, err := rueidis.NewClient(opt)
		if err != nil {
			t.Fatal(err)
		}
		var wg sync.WaitGroup
		var progress atomic.Int64
		waited := 0
		arg := strings.Repeat("x", big)
		for k := 0; k < callers; k++ {
			wg.Add(1)
			go func(k int) {
				defer wg.Done()
				for i := 0; i < calls; i++ {
					if k == 0 {
						cmds := make(rueidis.Commands, batch)
						for j := range cmds {
							cmds[j] = cl.B().Set().Key(fmt.Sprintf("b%d", j)).Value(arg).Build()
						}
						cl.DoMulti(context.Background(), cmds...)
						progress.Add(1)
					} else {
						cl.Do(context.Background(), cl.B().Get().Key("a").Build())
						progress.Add(1)
					}
				}
			}(k)
		}
		done := make(chan struct{})
		go func() { wg.Wait(); close(done) }()
		nt := callers > 2<<(scale-1)/1 && big*batch > wbuf
		plan := map[string]any{"ring_scale": scale, "write_buffer": wbuf, "callers": callers, "calls": calls, "big_arg": big, "batch": batch}
		c.Eval(nt, fmt.Sprint(plan))
		c.Sample(nt, func() any { return plan })
		// Deadlock verdict that does not depend on machine speed: no call completed during 10 consecutive
		// samples taken 2 s apart AND in the last three samples no goroutine of the process was running,
		// runnable or sleeping (a starved but live client always shows runnable goroutines).
		idle, last := 0, int64(-1)
		for {
			select {
			case <-done:
				cl.Close()
				w.Stop()
				return
			case <-time.After(2 * time.Second):
			}
			if p := progress.Load(); p != last {
				last, idle = p, 0
				continue
			}
			if live := c02LiveGoroutines(); live > 0 {
				idle = min(idle, 7) // keep waiting: something can still run
				if waited++; waited > 150 {
					c.Inconclusive("no-progress-but-runnable-goroutines")
					return
				}
				continue
			}
			if idle++; idle >= 10 {
				// the client and its goroutines are wedged: leave them behind
				c.Fail(rt, "C02.no-deadlock", fmt.Sprintf("no call completed for 20 s and every goroutine is blocked for ever (%v, %d calls done)", plan, last), plan)
			}
		}
	})
}

// c02LiveGoroutines counts goroutines (other than the caller) that can still make progress on their own.
func c02LiveGoroutines() int {
	buf := make([]byte, 1<<20)
	buf = buf[:runtime.Stack(buf, true)]
	n := 0
	for i, g := range strings.Split(string(buf), "\n\n") {
		if i == 0 {
			continue // the caller
		}
		head, _, _ := strings.Cut(g, "\n")
		if strings.Contains(head, "[running") || strings.Contains(head, "[runnable") || strings.Contains(head, "[sleep") || strings.Contains(head, "[IO wait") || strings.Contains(head, "[syscall") {
			n++
		}
	}
	return n
}
