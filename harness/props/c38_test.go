package props

import (
	"context"
	"encoding/json"
	"errors"
	"fmt"
	"sort"
	"strconv"
	"strings"
	"sync"
	"testing"
	"time"

	"github.com/redis/rueidis"
	"github.com/redis/rueidis/rueidislimiter"
	"pgregory.net/rapid"
	"verif/harness/sim"
	"verifkit/bubble"
	"verifkit/fakeredis"
	"verifkit/stat"
)

// ---------------------------------------------------------------------------------------------
// C38: the rate limiter never admits more than the limit per identifier and window.
//
// Concurrent callers at generated virtual instants (exactly on and 1 ms around window ends) call
// Allow / AllowN / Check on a limiter whose client talks to the fake server, which runs the limiter's
// real Lua script and expires its keys on the bubble's clock. The fake's log gives the serial order
// of the script executions; a reference model of the documented semantics (a window starts with the
// first request after the previous window ended and lasts the window of that request - the one of its
// per-call WithCustomRateLimit option, else the limiter's -; every request adds its n, admitted or
// not; a request is judged against its own limit) is run over that order and compared with what each
// caller got.
// ---------------------------------------------------------------------------------------------

type c38Call struct {
	AtMs int    `json:"at_ms"` // virtual instant of the call, since the start of the bubble
	Kind string `json:"kind"`  // allow allown check
	ID   int    `json:"id"`
	N    int64  `json:"n"`
}

type c38Opt struct {
	Limit    int `json:"limit"`
	WindowMs int `json:"window_ms"`
}

type c38Plan struct {
	Limit    int      `json:"limit"`
	WindowMs int      `json:"window_ms"`
	Prefix   string   `json:"prefix"`
	IDs      []string `json:"ids"`
	// per-call WithCustomRateLimit: Options[0] is the limiter's default (no option passed), the others
	// are passed as option; OptOf[identifier][n mod 3] selects one, so that calls that agree in
	// (identifier, n) carry the same option and stay interchangeable for the oracle
	Options []c38Opt    `json:"options"`
	OptOf   [][3]int    `json:"opt_of"`
	Callers [][]c38Call `json:"callers"`
}

// opt returns the index of the option a call with these arguments uses (0 = none).
func (p c38Plan) opt(id int, n int64) int {
	if n < 0 || len(p.OptOf) == 0 {
		return 0
	}
	return p.OptOf[id][n%3]
}

type c38Obs struct {
	Done  bool
	NowMs int64 // unix ms of the virtual clock when the call was made
	Took  time.Duration
	Res   rueidislimiter.Result
	Err   string
	Neg   bool // the call returned ErrInvalidTokens
}

type c38Exec struct {
	Key     string
	N       int64
	NextMs  int64
	NowMs   int64
	Current int64
	Expires int64
}

func genC38Plan(rt *rapid.T) c38Plan {
	var p c38Plan
	p.Limit = rapid.IntRange(1, 20).Draw(rt, "limit")
	p.WindowMs = rapid.SampledFrom([]int{1000, 1000, 1001, 1500, 2000, 3000, 5000}).Draw(rt, "windowMs")
	p.Prefix = rapid.SampledFrom([]string{"", "", "rl", "app:limits"}).Draw(rt, "prefix")
	p.IDs = [][]string{{"alice"}, {"alice", "bob"}, {"user 1", "{tag}"}, {"", "x\r\ny"}, {"alice"}}[rapid.IntRange(0, 4).Draw(rt, "ids")]
	w := p.WindowMs
	p.Options = []c38Opt{{p.Limit, p.WindowMs}}
	maxLimit := p.Limit
	nCustom := rapid.SampledFrom([]int{0, 1, 1, 2, 2}).Draw(rt, "customOptions")
	for i := 0; i < nCustom; i++ {
		o := c38Opt{
			Limit:    rapid.OneOf(rapid.IntRange(1, 20), rapid.SampledFrom([]int{1, p.Limit, p.Limit + 5, max(1, p.Limit/2)})).Draw(rt, "customLimit"),
			WindowMs: rapid.SampledFrom([]int{200, 500, 700, 999, 1000, 1500, 2500, 4000, 7000, 3600000, w / 2, 2 * w, w + 1}).Draw(rt, "customWindowMs"),
		}
		if o.WindowMs == w && o.Limit == p.Limit {
			o.WindowMs = w + 300
		}
		p.Options = append(p.Options, o)
		maxLimit = max(maxLimit, o.Limit)
	}
	p.OptOf = make([][3]int, len(p.IDs))
	if nCustom > 0 {
		for id := range p.IDs {
			if rapid.IntRange(0, 4).Draw(rt, "mixedOptions") == 2 {
				// one identifier judged under several (limit, window) pairs
				for r := 0; r < 3; r++ {
					p.OptOf[id][r] = rapid.IntRange(0, nCustom).Draw(rt, "optOf")
				}
			} else {
				// the usual use: an identifier always comes with the same option (or always with none)
				o := rapid.SampledFrom([]int{0, 1, 1, nCustom, nCustom}).Draw(rt, "optOfId")
				p.OptOf[id] = [3]int{o, o, o}
			}
		}
	}
	ends := []int{0, 0, 1, w / 2, 3 * w}
	horizon := 3 * w
	for _, o := range p.Options {
		if ow := o.WindowMs; ow <= 10000 {
			ends = append(ends, ow-1, ow, ow+1, ow+2, 2*ow, 2*ow+1, 2*ow+2, 2*ow+3)
			horizon = max(horizon, 3*ow)
		}
	}
	instants := rapid.OneOf(
		rapid.SampledFrom(ends),
		rapid.SampledFrom(ends),
		rapid.IntRange(0, horizon),
		rapid.IntRange(0, 3*w),
		rapid.IntRange(0, 20),
	)
	nCallers := rapid.IntRange(1, 6).Draw(rt, "callers")
	for ci := 0; ci < nCallers; ci++ {
		nCalls := rapid.IntRange(1, 8).Draw(rt, "calls")
		ats := make([]int, nCalls)
		for i := range ats {
			ats[i] = instants.Draw(rt, "at")
		}
		sort.Ints(ats)
		calls := make([]c38Call, nCalls)
		for i := range calls {
			cl := c38Call{AtMs: ats[i], ID: rapid.IntRange(0, len(p.IDs)-1).Draw(rt, "id")}
			switch rapid.IntRange(0, 9).Draw(rt, "kind") {
			case 0, 1, 2, 3:
				cl.Kind, cl.N = "allow", 1
			case 4, 5:
				cl.Kind, cl.N = "check", 0
			default:
				cl.Kind = "allown"
				cl.N = int64(rapid.OneOf(rapid.IntRange(0, maxLimit+3), rapid.IntRange(1, 3), rapid.SampledFrom([]int{p.Limit, -1, p.Limit})).Draw(rt, "n"))
			}
			calls[i] = cl
		}
		p.Callers = append(p.Callers, calls)
	}
	return p
}

func (p c38Plan) withoutChecks() c38Plan {
	q := p
	q.Callers = nil
	for _, calls := range p.Callers {
		var keep []c38Call
		for _, cl := range calls {
			if cl.N != 0 {
				keep = append(keep, cl)
			}
		}
		q.Callers = append(q.Callers, keep)
	}
	return q
}

func c38Run(t *testing.T, plan c38Plan) (res bubble.Result, ctorErr string, obs [][]c38Obs, execs []c38Exec, harness string) {
	obs = make([][]c38Obs, len(plan.Callers))
	for i, calls := range plan.Callers {
		obs[i] = make([]c38Obs, len(calls))
	}
	var mu sync.Mutex
	res = bubble.Run(t, func() {
		w := fakeredis.NewWorld()
		w.NewServer(probAddr)
		var client rueidis.Client
		lim, err := rueidislimiter.NewRateLimiter(rueidislimiter.RateLimiterOption{
			ClientBuilder: func(rueidis.ClientOption) (rueidis.Client, error) {
				opt := sim.Option(w, probAddr)
				opt.ForceSingleClient = true
				opt.DisableCache = true
				var err error
				client, err = rueidis.NewClient(opt)
				return client, err
			},
			KeyPrefix: plan.Prefix,
			Limit:     plan.Limit,
			Window:    time.Duration(plan.WindowMs) * time.Millisecond,
		})
		if err != nil {
			ctorErr = errText(err)
			w.Stop()
			return
		}
		start := time.Now()
		var wg sync.WaitGroup
		for ci, calls := range plan.Callers {
			wg.Add(1)
			go func(ci int, calls []c38Call) {
				defer wg.Done()
				ctx := context.Background()
				for i, cl := range calls {
					if d := time.Duration(cl.AtMs)*time.Millisecond - time.Since(start); d > 0 {
						time.Sleep(d)
					}
					var o c38Obs
					o.NowMs = time.Now().UnixMilli()
					t0 := time.Now()
					var r rueidislimiter.Result
					var err error
					var opts []rueidislimiter.RateLimitOption
					if oi := plan.opt(cl.ID, cl.N); oi > 0 {
						opts = append(opts, rueidislimiter.WithCustomRateLimit(plan.Options[oi].Limit, time.Duration(plan.Options[oi].WindowMs)*time.Millisecond))
					}
					switch cl.Kind {
					case "allow":
						r, err = lim.Allow(ctx, plan.IDs[cl.ID], opts...)
					case "check":
						r, err = lim.Check(ctx, plan.IDs[cl.ID], opts...)
					default:
						r, err = lim.AllowN(ctx, plan.IDs[cl.ID], cl.N, opts...)
					}
					o.Took = time.Since(t0)
					o.Res, o.Err, o.Neg, o.Done = r, errText(err), errors.Is(err, rueidislimiter.ErrInvalidTokens), true
					mu.Lock()
					obs[ci][i] = o
					mu.Unlock()
				}
			}(ci, calls)
		}
		sim.WaitTimeout(&wg, 10*time.Minute)
		sim.CallTimeout(time.Minute, client.Close)
		w.Stop()
		for _, e := range w.Snapshot() {
			if e.Kind != "reply" || len(e.Argv) < 3 || e.Reply == nil {
				continue
			}
			if n := strings.ToUpper(e.Argv[0]); n != "EVALSHA" && n != "EVAL" {
				continue
			}
			if e.Reply.IsErr() {
				if !strings.HasPrefix(e.Reply.S, "NOSCRIPT") && harness == "" {
					harness = "script error: " + e.Reply.S
				}
				continue
			}
			nk, _ := strconv.Atoi(e.Argv[2])
			if nk != 2 || len(e.Argv) != 3+2+3 || len(e.Reply.A) != 2 {
				harness = fmt.Sprintf("unexpected script call %q -> %s", trunc(e.Argv), e.Reply)
				continue
			}
			x := c38Exec{Key: e.Argv[3], Current: e.Reply.A[0].I, Expires: e.Reply.A[1].I}
			x.N, _ = strconv.ParseInt(e.Argv[5], 10, 64)
			x.NextMs, _ = strconv.ParseInt(e.Argv[6], 10, 64)
			x.NowMs, _ = strconv.ParseInt(e.Argv[7], 10, 64)
			execs = append(execs, x)
		}
		time.Sleep(5 * time.Second)
	})
	return
}

type c38Group struct {
	id    int
	n     int64
	nowMs int64
}

type c38Expect struct {
	res       rueidislimiter.Result
	judgeable bool // Allowed is only specified for n > 0
}

func c38ResString(rs []rueidislimiter.Result) string {
	parts := make([]string, len(rs))
	for i, r := range rs {
		parts[i] = fmt.Sprintf("{allowed=%v remaining=%d resetAt=%d}", r.Allowed, r.Remaining, r.ResetAtMs)
	}
	sort.Strings(parts)
	return strings.Join(parts, " ")
}

func c38Check(c *stat.Collector, rt stat.Fataler, plan c38Plan, res bubble.Result, ctorErr string, obs [][]c38Obs, execs []c38Exec, harness string) (nt bool, classes []string, inconclusive bool, checkOpensWindow bool, got map[c38Group][]rueidislimiter.Result, order []c38Group) {
	cls := map[string]bool{}
	defer func() {
		for name := range cls {
			classes = append(classes, name)
		}
		sort.Strings(classes)
	}()
	cfg := fmt.Sprintf("limit=%d window=%dms options=%v by identifier and n mod 3: %v", plan.Limit, plan.WindowMs, plan.Options[1:], plan.OptOf)
	if res.Panic != nil {
		c.Fail(rt, "C38.no-panic", res.String(), plan)
	}
	if probUnsupported(harness) {
		return false, nil, true, false, nil, nil
	}
	for _, os := range obs {
		for _, o := range os {
			if probUnsupported(o.Err) {
				return false, nil, true, false, nil, nil
			}
		}
	}
	if res.Deadlock {
		c.Fail(rt, "C38.no-hang", res.String(), plan)
	}
	if ctorErr != "" {
		c.Fail(rt, "C38.harness", "NewRateLimiter failed: "+ctorErr, plan)
	}
	if harness != "" {
		c.Fail(rt, "C38.no-error", cfg+": "+harness, plan)
	}
	prefix := plan.Prefix
	if prefix == "" {
		prefix = rueidislimiter.PlaceholderPrefix
	}
	idOfKey := map[string]int{}
	for i, id := range plan.IDs {
		idOfKey[prefix+":{"+id+"}"] = i
	}
	// what the callers got, grouped by (identifier, n, instant): callers of one group are interchangeable
	got = map[c38Group][]rueidislimiter.Result{}
	admitted := map[string]int64{}   // (identifier, ResetAtMs) -> admitted units
	admitLimit := map[string]int64{} // the largest limit any of those admitted calls was judged against
	sameInstant := false
	seenAt := map[string]int{}
	for ci, calls := range plan.Callers {
		for i, cl := range calls {
			o := obs[ci][i]
			where := fmt.Sprintf("caller %d call %d (%s id=%q n=%d at +%dms) with %s", ci, i, cl.Kind, plan.IDs[cl.ID], cl.N, cl.AtMs, cfg)
			if !o.Done {
				c.Fail(rt, "C38.no-hang", where+" never returned: "+res.String(), plan)
			}
			if cl.N < 0 {
				cls["negative-n"] = true
				if !o.Neg {
					c.Fail(rt, "C38.negative-n-rejected", fmt.Sprintf("%s returned %+v, %q; want ErrInvalidTokens", where, o.Res, o.Err), plan)
				}
				continue
			}
			if o.Err != "" {
				c.Fail(rt, "C38.no-error", where+" failed: "+o.Err, plan)
			}
			if o.Took != 0 {
				c.Fail(rt, "C38.harness", fmt.Sprintf("%s took %v of virtual time; the oracle assumes instantaneous calls", where, o.Took), plan)
			}
			g := c38Group{cl.ID, cl.N, o.NowMs}
			got[g] = append(got[g], o.Res)
			if cl.N > 0 && o.Res.Allowed {
				b := fmt.Sprintf("%d@%d", cl.ID, o.Res.ResetAtMs)
				admitted[b] += cl.N
				admitLimit[b] = max(admitLimit[b], int64(plan.Options[plan.opt(cl.ID, cl.N)].Limit))
			}
			if oi := plan.opt(cl.ID, cl.N); oi > 0 {
				cls["call-with-custom-option"] = true
				if ow := plan.Options[oi].WindowMs; ow < plan.WindowMs {
					cls["custom-window-shorter-than-default"] = true
				} else if ow > plan.WindowMs {
					cls["custom-window-longer-than-default"] = true
				}
				if ol := plan.Options[oi].Limit; ol < plan.Limit {
					cls["custom-limit-lower-than-default"] = true
				} else if ol > plan.Limit {
					cls["custom-limit-higher-than-default"] = true
				}
			}
			k := fmt.Sprintf("%d@%d", cl.ID, o.NowMs)
			if prev, ok := seenAt[k]; ok && prev != ci {
				sameInstant = true
			}
			seenAt[k] = ci
		}
	}
	// safety clause, straight from the callers' results
	for k, units := range admitted {
		if units > admitLimit[k] {
			c.Fail(rt, "C38.admitted-within-limit", fmt.Sprintf("%s: identifier#window %s admitted %d units in total (calls with n>0 that report Allowed), the largest limit among those calls is %d", cfg, k, units, admitLimit[k]), plan)
		}
	}
	// reference model over the server's serial order
	type state struct{ expires, counter int64 }
	st := map[int]*state{}
	want := map[c38Group][]c38Expect{}
	nearBoundary := false
	for xi, x := range execs {
		id, ok := idOfKey[x.Key]
		if !ok {
			c.Fail(rt, "C38.harness", fmt.Sprintf("script execution %d used key %q which belongs to no identifier of the plan", xi, x.Key), plan)
		}
		s := st[id]
		if s == nil {
			s = &state{}
			st[id] = s
		}
		if s.expires != 0 && x.NowMs-s.expires >= -1 && x.NowMs-s.expires <= 1 {
			nearBoundary = true
			cls[fmt.Sprintf("call-at-window-end%+dms", x.NowMs-s.expires)] = true
		}
		opens := s.expires == 0 || s.expires < x.NowMs
		if s.expires != 0 && s.expires == x.NowMs {
			// a request at the very millisecond the window ends: the documentation does not say which window
			// it belongs to; the model follows the limiter's choice and checks it for consistency afterwards
			opens = x.Expires != s.expires
		}
		// the call's own (limit, window): the per-call option if it carries one, else the limiter's
		eff := plan.Options[plan.opt(id, x.N)]
		if opens {
			s.expires, s.counter = x.NowMs+int64(eff.WindowMs), 0
			if x.N == 0 {
				checkOpensWindow = true
			}
			if plan.opt(id, x.N) > 0 {
				cls["window-opened-by-call-with-custom-option"] = true
				if eff.WindowMs != plan.WindowMs {
					cls["window-opened-with-custom-window-length"] = true
				}
			}
		}
		s.counter += x.N
		e := c38Expect{judgeable: x.N > 0}
		e.res.Remaining = int64(eff.Limit) - s.counter
		if e.res.Remaining < 0 {
			e.res.Remaining = 0
		}
		e.res.ResetAtMs = s.expires
		e.res.Allowed = s.counter <= int64(eff.Limit)
		g := c38Group{id, x.N, x.NowMs}
		want[g] = append(want[g], e)
		if x.N > 0 {
			order = append(order, g)
		}
	}
	for g, rs := range got {
		ws := want[g]
		where := fmt.Sprintf("%s: calls with id=%q n=%d at unix ms %d", cfg, plan.IDs[g.id], g.n, g.nowMs)
		if len(ws) != len(rs) {
			c.Fail(rt, "C38.one-execution-per-call", fmt.Sprintf("%s: %d calls returned without error but the server ran the script %d times for them", where, len(rs), len(ws)), plan)
		}
		// compare as multisets; Allowed takes part only where it is specified (n > 0)
		gotS, wantS := make([]string, len(rs)), make([]string, len(ws))
		for i, r := range rs {
			if g.n == 0 {
				r.Allowed = false
			}
			gotS[i] = fmt.Sprintf("{allowed=%v remaining=%d resetAt=%d}", r.Allowed, r.Remaining, r.ResetAtMs)
		}
		for i, e := range ws {
			if g.n == 0 {
				e.res.Allowed = false
			}
			wantS[i] = fmt.Sprintf("{allowed=%v remaining=%d resetAt=%d}", e.res.Allowed, e.res.Remaining, e.res.ResetAtMs)
		}
		sort.Strings(gotS)
		sort.Strings(wantS)
		if strings.Join(gotS, " ") != strings.Join(wantS, " ") {
			clause := "C38.result-matches-model"
			if g.n == 0 {
				clause = "C38.check-consumes-nothing"
			}
			c.Fail(rt, clause, fmt.Sprintf("%s: callers got %s, the model over the server's execution order gives %s (for n=0 Allowed is not compared); executions: %+v", where, strings.Join(gotS, " "), strings.Join(wantS, " "), execs), plan)
		}
	}
	for g := range want {
		if _, ok := got[g]; !ok {
			c.Fail(rt, "C38.one-execution-per-call", fmt.Sprintf("%s: the server ran the script for id=%q n=%d at unix ms %d but no call with these arguments returned successfully", cfg, plan.IDs[g.id], g.n, g.nowMs), plan)
		}
	}
	nChecks, nOver := 0, 0
	for _, calls := range plan.Callers {
		for _, cl := range calls {
			if cl.N == 0 {
				nChecks++
			}
			if cl.N > int64(plan.Limit) {
				nOver++
			}
		}
	}
	rejected := false
	for g, rs := range got {
		for _, r := range rs {
			if g.n > 0 && !r.Allowed {
				rejected = true
			}
		}
	}
	if sameInstant {
		cls["two-callers-same-identifier-same-instant"] = true
	}
	if nearBoundary {
		cls["call-within-1ms-of-a-window-end"] = true
	}
	if nChecks > 0 {
		cls["has-check"] = true
	}
	if checkOpensWindow {
		cls["check-opens-a-window"] = true
	}
	if nOver > 0 {
		cls["n-above-limit"] = true
	}
	if rejected {
		cls["some-request-rejected"] = true
	}
	if len(st) > 1 {
		cls["two-identifiers"] = true
	}
	for _, of := range plan.OptOf {
		if of[0] != of[1] || of[1] != of[2] {
			cls["one-identifier-under-several-options"] = true
		}
	}
	return (sameInstant || nearBoundary) && len(execs) > 1, nil, false, checkOpensWindow, got, order
}

func TestVerif_C38_Limiter(t *testing.T) {
	c := stat.For("C38", "limiter").Rule("1-6 concurrent callers x 1-8 calls from {Allow, AllowN(n in -1..limit+3), Check} on 1-2 identifiers of one limiter (limit 1-20, window 1-5 s, default and custom key prefix); 80% of the plans define 1-2 per-call WithCustomRateLimit options (limit 1-25, window 200 ms .. 1 h, shorter and longer than the default) that an identifier uses always (usual) or depending on n mod 3 (mixed) in a synctest bubble; call instants drawn from {0, 1, W-1, W, W+1, W+2, 2W..2W+3, W/2, 3W} and uniformly in [0,3W] ms so that callers coincide and calls fall exactly on / 1 ms around window ends; the fake server runs the limiter's real Lua script and expires its keys on the virtual clock; oracle: (1) per (identifier, ResetAtMs) the n of all calls with n>0 reporting Allowed sum to <= the largest limit among those calls; (2) a reference model (window opens at the first request after the previous one ended and lasts the window of the call that opens it - its per-call option or the default -, every request adds n, Remaining = max(limit-sum,0) and Allowed iff sum<=limit for n>0 with the limit of the call itself, Check adds 0) run over the serial order of script executions in the server log equals what the callers got, as multisets per (identifier, n, instant); (3) metamorphic: the same plan without its Checks, when no Check opened a window and the server executed the remaining calls in the same order, gives the same results; negative n => ErrInvalidTokens and no execution; non-trivial = two callers hit one identifier at the same instant or a call falls within 1 ms of a window end")
	defer c.Flush()
	rapid.Check(t, func(rt *rapid.T) {
		plan := genC38Plan(rt)
		saveCase("c38", plan)
		res, ctorErr, obs, execs, harness := c38Run(t, plan)
		if res.Frozen {
			c.Inconclusive("virtual-clock-freeze")
			return
		}
		nt, classes, inconclusive, checkOpens, got, order := c38Check(c, rt, plan, res, ctorErr, obs, execs, harness)
		if inconclusive {
			c.Inconclusive("lua-unsupported")
			return
		}
		// metamorphic: Check consumes nothing, so dropping the Checks must not change any other result
		bare := plan.withoutChecks()
		nBare, nAll := 0, 0
		for i := range plan.Callers {
			nBare += len(bare.Callers[i])
			nAll += len(plan.Callers[i])
		}
		if nBare > 0 && nBare < nAll {
			switch {
			case checkOpens:
				classes = append(classes, "metamorphic-skipped(check-opened-a-window)")
			default:
				res2, ctorErr2, obs2, execs2, harness2 := c38Run(t, bare)
				if res2.Frozen {
					c.Inconclusive("virtual-clock-freeze")
					return
				}
				sub := c
				_, _, inc2, _, got2, order2 := c38Check(sub, rt, bare, res2, ctorErr2, obs2, execs2, harness2)
				if inc2 {
					c.Inconclusive("lua-unsupported")
					return
				}
				if fmt.Sprint(order) != fmt.Sprint(order2) {
					classes = append(classes, "metamorphic-skipped(different-execution-order)")
					break
				}
				classes = append(classes, "metamorphic-compared")
				for g, rs := range got {
					if g.n == 0 {
						continue
					}
					if a, b := c38ResString(rs), c38ResString(got2[g]); a != b {
						c.Fail(rt, "C38.check-consumes-nothing", fmt.Sprintf("limit=%d window=%dms: calls with id=%q n=%d at unix ms %d got %s; in the same plan without the Check calls (same execution order of the others) they got %s", plan.Limit, plan.WindowMs, plan.IDs[g.id], g.n, g.nowMs, a, b), plan)
					}
				}
			}
		}
		key, _ := json.Marshal(plan)
		c.Eval(nt, string(key), classes...)
		c.Sample(nt, func() any { return plan })
	})
}
