package props

import (
	"context"
	"crypto/tls"
	"net"
	"testing"
	"time"

	"github.com/redis/rueidis"
	"verifkit/bubble"
	"verifkit/fakeredis"
)

func TestSmoke(t *testing.T) {
	var got string
	var hit bool
	var evs []fakeredis.Event
	res := bubble.Run(t, func() {
		w := fakeredis.NewWorld()
		w.NewServer("127.0.0.1:6379")
		c, err := rueidis.NewClient(rueidis.ClientOption{
			InitAddress: []string{"127.0.0.1:6379"},
			DialCtxFn: func(ctx context.Context, addr string, d *net.Dialer, cfg *tls.Config) (net.Conn, error) {
				return w.Dial(addr)
			},
			ReadBufferEachConn: 4096, WriteBufferEachConn: 4096,
		})
		if err != nil {
			panic(err)
		}
		ctx := context.Background()
		if err := c.Do(ctx, c.B().Set().Key("k").Value("v").Build()).Error(); err != nil {
			panic(err)
		}
		r := c.DoCache(ctx, c.B().Get().Key("k").Cache(), time.Minute)
		got, _ = r.ToString()
		r = c.DoCache(ctx, c.B().Get().Key("k").Cache(), time.Minute)
		hit = r.IsCacheHit()
		c.Close()
		w.Stop()
		evs = w.Snapshot()
	})
	if !res.OK() {
		t.Fatal(res)
	}
	for _, e := range evs {
		t.Log(e)
	}
	if got != "v" || !hit {
		t.Fatalf("got %q hit %v", got, hit)
	}
}
