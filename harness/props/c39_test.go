package props

// C39 "Cache-aside reads never leak locks and load once": timed plans over 2-4 rueidisaside clients
// sharing one fake server inside a synctest bubble.

import (
	"context"
	"crypto/sha1"
	"crypto/tls"
	"encoding/hex"
	"encoding/json"
	"errors"
	"fmt"
	"net"
	"os"
	"runtime"
	"sort"
	"strings"
	"sync"
	"testing"
	"time"

	"github.com/redis/rueidis"
	"github.com/redis/rueidis/rueidisaside"
	"pgregory.net/rapid"
	"verif/harness/sim"
	"verifkit/bubble"
	"verifkit/fakeredis"
	"verifkit/stat"
)

type c39Loader struct {
	LatMs      int    `json:"lat_ms"`
	Outcome    string `json:"outcome"`               // value | error | empty
	OverrideMs int    `json:"override_ms,omitempty"` // >0: OverrideCacheTTL inside the loader
}

type c39Op struct {
	GapMs    int       `json:"gap_ms"`
	Kind     string    `json:"kind"` // get | peek (Get with fn == nil) | del
	Key      string    `json:"key"`
	TTLMs    int       `json:"ttl_ms,omitempty"`
	Generous bool      `json:"generous,omitempty"` // TTLMs exceeds everything that can legitimately delay this Get
	Loader   c39Loader `json:"loader"`
}

type c39Client struct {
	UseLua    bool      `json:"use_lua"`
	Multiplex int       `json:"multiplex"`
	Callers   [][]c39Op `json:"callers"`
}

type c39Event struct {
	AtMs   int    `json:"at_ms"`
	Kind   string `json:"kind"` // close crash kill ext-set ext-del
	Client int    `json:"client,omitempty"`
	Key    string `json:"key,omitempty"`
}

type c39Plan struct {
	ClientTTLMs int         `json:"client_ttl_ms"`
	Typed       bool        `json:"typed"`
	LatUs       []int       `json:"lat_us"`
	Clients     []c39Client `json:"clients"`
	Events      []c39Event  `json:"events,omitempty"`
}

type c39T struct {
	V string `json:"v"`
	N int    `json:"n"`
}

type c39LoadObs struct {
	StartUs int64 `json:"start_us"`
	EndUs   int64 `json:"end_us"`
	// StartSeq/EndSeq order loader starts and ends of the whole run (a counter under the harness mutex):
	// they tell "ran one after the other at the same virtual instant" from "ran at the same time".
	StartSeq int64  `json:"start_seq"`
	EndSeq   int64  `json:"end_seq"`
	Val      string `json:"val"`
	Failed   bool   `json:"failed"`
	Done     bool   `json:"done"`
}

type c39GetObs struct {
	Client  int          `json:"client"`
	Caller  int          `json:"caller"`
	Op      int          `json:"op"`
	Kind    string       `json:"kind"`
	Key     string       `json:"key"`
	StartUs int64        `json:"start_us"`
	EndUs   int64        `json:"end_us"`
	Val     string       `json:"val"`
	Err     string       `json:"err,omitempty"`
	ErrKind string       `json:"err_kind,omitempty"` // ctx loader nil other
	Done    bool         `json:"done"`
	Loads   []c39LoadObs `json:"loads,omitempty"`
}

type c39Death struct {
	AtUs   int64  `json:"at_us"`
	Kind   string `json:"kind"`
	Client int    `json:"client"`
}

type c39Run struct {
	Res     bubble.Result
	Gets    []*c39GetObs
	Deaths  []c39Death
	Events  []fakeredis.Event
	Pending int
	CloseOK bool
}

// c39Net owns the connections of one cache-aside client: drop closes all of them as a network failure
// would (every connection, also one being dialled at that instant) and can refuse re-dialling (crash).
type c39Net struct {
	mu    sync.Mutex
	dead  bool
	conns []net.Conn
}

func (n *c39Net) dialer(base func(context.Context, string, *net.Dialer, *tls.Config) (net.Conn, error)) func(context.Context, string, *net.Dialer, *tls.Config) (net.Conn, error) {
	refused := &net.OpError{Op: "dial", Net: "tcp", Err: errors.New("harness: this client has crashed")}
	return func(ctx context.Context, addr string, d *net.Dialer, cfg *tls.Config) (net.Conn, error) {
		n.mu.Lock()
		dead := n.dead
		n.mu.Unlock()
		if dead {
			return nil, refused
		}
		c, err := base(ctx, addr, d, cfg)
		if err != nil {
			return nil, err
		}
		n.mu.Lock()
		if n.dead {
			n.mu.Unlock()
			c.Close()
			return nil, refused
		}
		n.conns = append(n.conns, c)
		n.mu.Unlock()
		return c, nil
	}
}

func (n *c39Net) drop(forGood bool) {
	n.mu.Lock()
	if forGood {
		n.dead = true
	}
	cs := n.conns
	n.conns = nil
	n.mu.Unlock()
	for _, c := range cs {
		c.Close()
	}
}

func sha1Hex(s string) string {
	h := sha1.Sum([]byte(s))
	return hex.EncodeToString(h[:])
}

func c39Enc(typed bool, v string) string {
	if !typed {
		return v
	}
	b, _ := json.Marshal(c39T{V: v, N: len(v)})
	return string(b)
}

func c39Dec(typed bool, s string) (string, bool) {
	if !typed {
		return s, true
	}
	var t c39T
	if err := json.Unmarshal([]byte(s), &t); err != nil {
		return "", false
	}
	return t.V, true
}

func c39Exec(t *testing.T, plan c39Plan) (run c39Run) {
	var mu sync.Mutex
	var loadSeq int64
	for ci, cl := range plan.Clients {
		for gi, ops := range cl.Callers {
			for oi, op := range ops {
				run.Gets = append(run.Gets, &c39GetObs{Client: ci, Caller: gi, Op: oi, Kind: op.Kind, Key: op.Key})
			}
		}
	}
	idx := func(ci, gi, oi int) *c39GetObs {
		for _, g := range run.Gets {
			if g.Client == ci && g.Caller == gi && g.Op == oi {
				return g
			}
		}
		panic("harness: no observation slot")
	}
	run.Res = bubble.Run(t, func() {
		w := fakeredis.NewWorld()
		srv := w.NewServer("127.0.0.1:6379")
		var latN int
		var latMu sync.Mutex
		srv.Hooks.Latency = func(c *fakeredis.Conn, req int, argv []string) time.Duration {
			if c.BurstIdx != 0 {
				return 0
			}
			switch strings.ToUpper(argv[0]) {
			case "SET", "EVALSHA", "EVAL", "DEL", "CLIENT":
				latMu.Lock()
				d := plan.LatUs[latN%len(plan.LatUs)]
				latN++
				latMu.Unlock()
				return time.Duration(d) * time.Microsecond
			}
			return 0
		}
		clock := sim.NewClock()
		n := len(plan.Clients)
		nets := make([]*c39Net, n)
		clients := make([]rueidisaside.CacheAsideClient, n)
		typed := make([]rueidisaside.TypedCacheAsideClient[c39T], n)
		for i, pc := range plan.Clients {
			nets[i] = &c39Net{}
			opt := sim.Option(w, "127.0.0.1:6379")
			opt.ForceSingleClient = true
			opt.ClientName = fmt.Sprintf("aside%d", i)
			opt.PipelineMultiplex = pc.Multiplex
			opt.WriteBufferEachConn = 1 << 20
			opt.DialCtxFn = nets[i].dialer(opt.DialCtxFn)
			cc, err := rueidisaside.NewClient(rueidisaside.ClientOption{ClientOption: opt, ClientTTL: time.Duration(plan.ClientTTLMs) * time.Millisecond, UseLuaLock: pc.UseLua})
			if err != nil {
				panic(fmt.Sprintf("harness: rueidisaside.NewClient failed: %v", err))
			}
			clients[i] = cc
			if plan.Typed {
				typed[i] = rueidisaside.NewTypedCacheAsideClient[c39T](cc,
					func(v *c39T) (string, error) { b, err := json.Marshal(v); return string(b), err },
					func(s string) (*c39T, error) {
						var v c39T
						if err := json.Unmarshal([]byte(s), &v); err != nil {
							return nil, fmt.Errorf("deserialize %q: %w", s, err)
						}
						return &v, nil
					})
			}
		}
		var wg sync.WaitGroup
		for ci, pc := range plan.Clients {
			for gi, ops := range pc.Callers {
				wg.Add(1)
				go func(ci, gi int, ops []c39Op) {
					defer wg.Done()
					for oi, op := range ops {
						time.Sleep(time.Duration(op.GapMs) * time.Millisecond)
						o := idx(ci, gi, oi)
						ttl := time.Duration(op.TTLMs) * time.Millisecond
						mu.Lock()
						o.StartUs = clock.Us()
						mu.Unlock()
						var val string
						var err error
						loaderErr := fmt.Errorf("loader-fail-c%d-g%d-o%d", ci, gi, oi)
						load := func(ctx context.Context, key string) (string, error) {
							mu.Lock()
							li := len(o.Loads)
							loadSeq++
							o.Loads = append(o.Loads, c39LoadObs{StartUs: clock.Us(), StartSeq: loadSeq})
							mu.Unlock()
							tm := time.NewTimer(time.Duration(op.Loader.LatMs) * time.Millisecond)
							defer tm.Stop()
							var v string
							var lerr error
							select {
							case <-tm.C:
								switch op.Loader.Outcome {
								case "error":
									lerr = loaderErr
								case "empty":
									v = ""
								default:
									v = fmt.Sprintf("v-c%d-g%d-o%d-%d", ci, gi, oi, li)
								}
								if op.Loader.OverrideMs > 0 {
									rueidisaside.OverrideCacheTTL(ctx, time.Duration(op.Loader.OverrideMs)*time.Millisecond)
								}
							case <-ctx.Done():
								lerr = ctx.Err()
							}
							mu.Lock()
							loadSeq++
							o.Loads[li].EndSeq = loadSeq
							o.Loads[li].EndUs, o.Loads[li].Done, o.Loads[li].Val, o.Loads[li].Failed = clock.Us(), true, v, lerr != nil
							mu.Unlock()
							return v, lerr
						}
						switch op.Kind {
						case "del":
							if plan.Typed {
								err = typed[ci].Del(context.Background(), op.Key)
							} else {
								err = clients[ci].Del(context.Background(), op.Key)
							}
						case "get", "peek":
							if plan.Typed && op.Kind == "get" {
								// (the typed wrapper calls fn unconditionally, so a nil loader is only used on the plain client)
								fn := func(ctx context.Context, key string) (*c39T, error) {
									v, err := load(ctx, key)
									if err != nil {
										return nil, err
									}
									return &c39T{V: v, N: len(v)}, nil
								}
								var tv *c39T
								tv, err = typed[ci].Get(context.Background(), ttl, op.Key, fn)
								if err == nil && tv != nil {
									val = tv.V
									if tv.N != len(tv.V) {
										val = "CORRUPT:" + val
									}
								} else if err == nil {
									val = "NILPTR"
								}
							} else {
								var fn func(ctx context.Context, key string) (string, error)
								if op.Kind == "get" {
									fn = load
								}
								val, err = clients[ci].Get(context.Background(), ttl, op.Key, fn)
								if plan.Typed && err == nil {
									if v, ok := c39Dec(true, val); ok {
										val = v
									} else {
										val = "UNDECODABLE:" + val
									}
								}
							}
						}
						mu.Lock()
						o.EndUs, o.Done, o.Val = clock.Us(), true, val
						if err != nil {
							o.Err = err.Error()
							switch {
							case errors.Is(err, loaderErr):
								o.ErrKind = "loader"
							case isCtxErr(err):
								o.ErrKind = "ctx"
							case rueidis.IsRedisNil(err):
								o.ErrKind = "nil"
							default:
								o.ErrKind = "other"
							}
						}
						mu.Unlock()
					}
				}(ci, gi, ops)
			}
		}
		for _, e := range plan.Events {
			e := e
			time.AfterFunc(time.Duration(e.AtMs)*time.Millisecond, func() {
				switch e.Kind {
				case "ext-set":
					srv.Do("SET", e.Key, c39Enc(plan.Typed, fmt.Sprintf("ext-%d", e.AtMs)))
					return
				case "ext-del":
					srv.Do("DEL", e.Key)
					return
				}
				mu.Lock()
				run.Deaths = append(run.Deaths, c39Death{AtUs: clock.Us(), Kind: e.Kind, Client: e.Client})
				mu.Unlock()
				switch e.Kind {
				case "close":
					clients[e.Client].Close()
				case "crash":
					nets[e.Client].drop(true)
				case "kill":
					nets[e.Client].drop(false)
				}
			})
		}
		finished := sim.WaitTimeout(&wg, 10*time.Minute)
		if !finished {
			mu.Lock()
			for _, g := range run.Gets {
				if !g.Done {
					run.Pending++
				}
			}
			mu.Unlock()
		}
		run.CloseOK = sim.CallTimeout(time.Minute, func() {
			for _, cc := range clients {
				cc.Close()
			}
		})
		w.Stop()
		run.Events = w.Snapshot()
		time.Sleep(5 * time.Second)
		if !finished {
			sim.WaitTimeout(&wg, time.Minute)
		}
	})
	return
}

// ---- server truth

type c39State struct {
	AtUs int64
	Seq  int64
	Kind string // none lock val
	V    string
}

type c39Release struct {
	AtUs, Seq int64
	ID        string // the client id given to the delkey script
	LockAtUs  int64  // when the lock it removed had been taken
	BySet     bool   // the lock was replaced by a setkey script (a value stored over it), not removed by delkey
}

type c39Truth struct {
	States   map[string][]c39State   // per key, in execution order
	Dels     map[string][]int64      // instants of DEL / external SET / expiry of the key
	Releases map[string][]c39Release // delkey script executions that removed a lock
	Unsupp   bool
}

func c39BuildTruth(events []fakeredis.Event) c39Truth {
	tr := c39Truth{States: map[string][]c39State{}, Dels: map[string][]int64{}, Releases: map[string][]c39Release{}}
	kinds := map[string]string{} // sha -> setkey delkey acquire
	classify := func(body string) string {
		switch {
		case strings.Contains(body, `"NX"`):
			return "acquire"
		case strings.Contains(body, `"DEL"`):
			return "delkey"
		case strings.Contains(body, `"SET"`):
			return "setkey"
		}
		return ""
	}
	for _, e := range events {
		if len(e.Argv) > 1 && strings.EqualFold(e.Argv[0], "EVAL") {
			kinds[sha1Hex(e.Argv[1])] = classify(e.Argv[1])
		}
	}
	cur := func(k string) c39State {
		s := tr.States[k]
		if len(s) == 0 {
			return c39State{Kind: "none"}
		}
		return s[len(s)-1]
	}
	put := func(e fakeredis.Event, k, kind, v string) {
		tr.States[k] = append(tr.States[k], c39State{AtUs: e.At, Seq: e.Seq, Kind: kind, V: v})
	}
	isPh := func(k string) bool { return strings.HasPrefix(k, rueidisaside.PlaceholderPrefix) }
	for _, e := range events {
		if e.Reply != nil && e.Reply.IsErr() && strings.Contains(e.Reply.S, "FAKEREDIS-LUA-UNSUPPORTED") {
			tr.Unsupp = true
		}
		switch e.Kind {
		case "exec":
			switch e.Argv[0] {
			case "<expire>":
				k := e.Argv[1]
				put(e, k, "none", "")
				tr.Dels[k] = append(tr.Dels[k], e.At)
			case "SET":
				put(e, e.Argv[1], "val", e.Argv[2])
				tr.Dels[e.Argv[1]] = append(tr.Dels[e.Argv[1]], e.At)
			case "DEL":
				for _, k := range e.Argv[1:] {
					if cur(k).Kind != "none" {
						put(e, k, "none", "")
					}
					tr.Dels[k] = append(tr.Dels[k], e.At)
				}
			}
		case "reply":
			if e.Reply == nil || len(e.Argv) == 0 {
				continue
			}
			switch strings.ToUpper(e.Argv[0]) {
			case "SET":
				k := e.Argv[1]
				if isPh(k) {
					if !e.Reply.IsErr() {
						put(e, k, "val", e.Argv[2])
					}
					continue
				}
				// SET key id NX GET PX ttl: a null reply means the lock was taken
				if e.Reply.T == '_' {
					put(e, k, "lock", e.Argv[2])
				}
			case "DEL":
				if e.Reply.T == ':' && e.Reply.I > 0 {
					for _, k := range e.Argv[1:] {
						if cur(k).Kind != "none" {
							put(e, k, "none", "")
						}
						tr.Dels[k] = append(tr.Dels[k], e.At)
					}
				} else if e.Reply.T == ':' {
					for _, k := range e.Argv[1:] {
						tr.Dels[k] = append(tr.Dels[k], e.At)
					}
				}
			case "EVALSHA", "EVAL":
				if len(e.Argv) < 5 {
					continue
				}
				sha := strings.ToLower(e.Argv[1])
				if strings.EqualFold(e.Argv[0], "EVAL") {
					sha = sha1Hex(e.Argv[1])
				}
				k := e.Argv[3]
				switch kinds[sha] {
				case "acquire":
					if e.Reply.T == '_' {
						put(e, k, "lock", e.Argv[4])
					}
				case "setkey":
					if e.Reply.T == '+' && len(e.Argv) > 5 {
						if st := cur(k); st.Kind == "lock" {
							// (the holder's own store at the end of its load, or - same client id - a sibling's)
							tr.Releases[k] = append(tr.Releases[k], c39Release{AtUs: e.At, Seq: e.Seq, ID: e.Argv[4], LockAtUs: st.AtUs, BySet: true})
						}
						put(e, k, "val", e.Argv[5])
					}
				case "delkey":
					if e.Reply.T == ':' && e.Reply.I == 1 {
						if st := cur(k); st.Kind == "lock" {
							tr.Releases[k] = append(tr.Releases[k], c39Release{AtUs: e.At, Seq: e.Seq, ID: e.Argv[4], LockAtUs: st.AtUs})
						}
						put(e, k, "none", "")
					}
				}
			}
		}
	}
	return tr
}

type c39Failer struct {
	c    *stat.Collector
	dump func()
}

func (f c39Failer) Fail(rt stat.Fataler, clause, detail string, cas any) {
	f.dump()
	f.c.Fail(rt, clause, detail, cas)
}

func c39Check(col *stat.Collector, rt stat.Fataler, plan c39Plan, run c39Run, tr c39Truth) (nt bool, classes []string) {
	c := c39Failer{c: col, dump: func() {
		if d := os.Getenv("C39_DEBUG"); d != "" {
			var sb strings.Builder
			for _, e := range run.Events {
				sb.WriteString(e.String() + "\n")
			}
			os.WriteFile(d+"/c39-events.txt", []byte(sb.String()), 0o644)
			b, _ := json.Marshal(map[string]any{"plan": plan, "gets": run.Gets, "deaths": run.Deaths})
			os.WriteFile(d+"/c39-obs.json", b, 0o644)
		}
	}}
	if run.Res.Deadlock || run.Pending > 0 {
		c.Fail(rt, "C39.no-hang", fmt.Sprintf("%d calls never returned (%s)", run.Pending, run.Res), plan)
	}
	if run.Res.Panic != nil {
		c.Fail(rt, "C39.no-panic", run.Res.String(), plan)
	}
	if run.Res.Leak {
		c.Fail(rt, "C39.no-leak", run.Res.String(), plan)
	}
	if !run.CloseOK {
		c.Fail(rt, "C39.close-returns", "Close of the cache-aside clients did not return within a virtual minute", plan)
	}
	const slackUs = 5000
	cls := map[string]bool{}
	diedAt := func(client int, kinds ...string) int64 { // first death of the given kinds, -1 if none
		at := int64(-1)
		for _, d := range run.Deaths {
			if d.Client != client {
				continue
			}
			for _, k := range kinds {
				if d.Kind == k && (at < 0 || d.AtUs < at) {
					at = d.AtUs
				}
			}
		}
		return at
	}
	describe := func(g *c39GetObs) string {
		return fmt.Sprintf("client %d caller %d op %d (%s %q, %d..%d us)", g.Client, g.Caller, g.Op, g.Kind, g.Key, g.StartUs, g.EndUs)
	}
	// every loader output and harness-stored value per key
	type load struct {
		g *c39GetObs
		l c39LoadObs
	}
	loads := map[string][]load{}
	for _, g := range run.Gets {
		for _, l := range g.Loads {
			loads[g.Key] = append(loads[g.Key], load{g, l})
		}
	}
	for _, g := range run.Gets {
		if !g.Done || g.Kind == "del" {
			continue
		}
		op := plan.Clients[g.Client].Callers[g.Caller][g.Op]
		gone := diedAt(g.Client, "close", "crash")
		if g.Err == "" {
			// (a) never the lock placeholder
			if strings.HasPrefix(g.Val, rueidisaside.PlaceholderPrefix) || strings.Contains(g.Val, rueidisaside.PlaceholderPrefix) {
				c.Fail(rt, "C39.no-placeholder", fmt.Sprintf("%s returned the internal lock placeholder %q", describe(g), g.Val), plan)
			}
			// (b) a loader output for the key or the stored value
			own := false
			for _, l := range g.Loads {
				if l.Done && !l.Failed && l.Val == g.Val {
					own = true
				}
			}
			if len(g.Loads) > 0 && g.Loads[len(g.Loads)-1].Done && !g.Loads[len(g.Loads)-1].Failed && !own {
				c.Fail(rt, "C39.returns-own-load", fmt.Sprintf("%s ran its loader successfully (%+v) but returned %q", describe(g), g.Loads, g.Val), plan)
			}
			if !own {
				okv := false
				states := tr.States[g.Key]
				for i, s := range states {
					if s.Kind != "val" {
						continue
					}
					v, decOK := c39Dec(plan.Typed, s.V)
					if !decOK || v != g.Val {
						continue
					}
					end := int64(1) << 62
					if i+1 < len(states) {
						end = states[i+1].AtUs
					}
					if s.AtUs <= g.EndUs && end >= g.StartUs-slackUs {
						okv = true
					}
				}
				if !okv {
					var hist []string
					for _, s := range states {
						hist = append(hist, fmt.Sprintf("+%dus %s %q", s.AtUs, s.Kind, s.V))
					}
					c.Fail(rt, "C39.value-origin", fmt.Sprintf("%s returned %q which no loader of this call produced and which was not the stored value of the key at any instant of the call; key history: %v", describe(g), g.Val, hist), plan)
				}
				if len(g.Loads) == 0 {
					cls["served-without-loading"] = true
				}
			}
		} else {
			// (e) liveness: a Get with a generous TTL on a live client fails only with its own loader's error
			// (or a connection error when its connections were killed)
			switch g.ErrKind {
			case "loader":
				cls["loader-error"] = true
			case "nil":
				if g.Kind != "peek" {
					c.Fail(rt, "C39.unexpected-error", fmt.Sprintf("%s returned a nil-reply error although a loader was given", describe(g)), plan)
				}
			case "ctx":
				if op.Generous && (gone < 0 || gone > g.EndUs) {
					c.Fail(rt, "C39.waiter-starved", fmt.Sprintf("%s gave up with %q after %d ms although its TTL exceeds every loader latency on the key plus the liveness TTL of every crashed or disconnected client: a lock was not released or a wake-up was missed", describe(g), g.Err, (g.EndUs-g.StartUs)/1000), plan)
				}
				cls["ctx-timeout"] = true
			default:
				killed := diedAt(g.Client, "kill", "close", "crash")
				if killed < 0 || killed > g.EndUs {
					c.Fail(rt, "C39.unexpected-error", fmt.Sprintf("%s failed with %q although its client was neither closed nor disconnected", describe(g), g.Err), plan)
				}
			}
		}
	}
	// (c) one loader at a time per key inside a clean lock epoch. Loaders of a key that overlap in time
	// (transitively) form a cluster; a cluster of two or more needs a reason inside its span: the key was
	// deleted / overwritten / expired, the client of one of its loaders died or was disconnected, or the
	// lock TTL of one of them ran out. (One reason excuses the whole cluster: after a Del two calls of one
	// client can own the lock under the same client id, and the first to finish releases it for both.)
	deathDuringLoad := false
	for key, ls := range loads {
		sort.SliceStable(ls, func(i, j int) bool { return ls[i].l.StartSeq < ls[j].l.StartSeq })
		endSeq := func(x load) int64 {
			if !x.l.Done {
				return 1 << 62
			}
			return x.l.EndSeq
		}
		for _, a := range ls {
			aEnd := a.l.EndUs
			if !a.l.Done {
				aEnd = 1 << 62
			}
			for _, d := range run.Deaths {
				if d.Client == a.g.Client && d.AtUs >= a.l.StartUs && d.AtUs <= aEnd {
					deathDuringLoad = true
					cls["death-during-load-"+d.Kind] = true
				}
			}
		}
		for i := 0; i < len(ls); {
			j, maxEnd := i+1, endSeq(ls[i])
			for j < len(ls) && ls[j].l.StartSeq < maxEnd {
				if e := endSeq(ls[j]); e > maxEnd {
					maxEnd = e
				}
				j++
			}
			cluster := ls[i:j]
			i = j
			if len(cluster) < 2 {
				continue
			}
			from, to := cluster[0].g.StartUs, cluster[len(cluster)-1].l.StartUs
			excuse := ""
			for _, at := range tr.Dels[key] {
				if at >= from && at <= to {
					excuse = "key deleted / overwritten / expired"
				}
			}
			for _, m := range cluster {
				for _, d := range run.Deaths {
					if d.Client == m.g.Client && d.AtUs <= to {
						excuse = "holder " + d.Kind
					}
				}
				mop := plan.Clients[m.g.Client].Callers[m.g.Caller][m.g.Op]
				// (the server's clock has millisecond resolution: a lock taken at 30.5 ms with PX 5 is gone at 35.0 ms)
				if to >= m.g.StartUs+int64(mop.TTLMs)*1000-1000 {
					excuse = "lock TTL elapsed"
				}
			}
			if excuse == "" {
				// Signature of finding C39.sibling-lock-released: the lock taken by a loader of the cluster was removed by
				// a delkey script while that loader was still running and its client was alive. The lock value is the
				// client id, not a per-call token, so a call of the same client that cleans up after a failed or timed-out
				// load (its own lock long expired) releases the lock a sibling call has taken since.
				for _, r := range tr.Releases[key] {
					for _, m := range cluster {
						stillLoading := !m.l.Done || m.l.EndUs > r.AtUs || (m.l.EndUs == r.AtUs && !m.l.Failed)
						if r.BySet {
							// a holder stores its value only after its loader has returned: a store over the lock while the
							// loader runs is a sibling's (its own lock expired, the script matched the shared client id), and
							// that value's shorter TTL then frees the key under the holder
							stillLoading = !m.l.Done || m.l.EndUs > r.AtUs
						}
						if r.LockAtUs == m.l.StartUs && r.AtUs >= m.l.StartUs && stillLoading && r.AtUs <= to {
							excuse = "sibling-release"
						}
					}
				}
				if excuse != "" && !c.c.Known("C39.sibling-lock-released") {
					var desc []string
					for _, m := range cluster {
						desc = append(desc, fmt.Sprintf("%s loading %d..%d us", describe(m.g), m.l.StartUs, m.l.EndUs))
					}
					c.Fail(rt, "C39.single-loader", fmt.Sprintf("loaders ran at the same time for key %q because a call of the holder's own client released the holder's lock (delkey with the shared client id) while the holder was loading: %s; releases %+v", key, strings.Join(desc, "; "), tr.Releases[key]), plan)
				}
			}
			if excuse == "" {
				var desc []string
				for _, m := range cluster {
					desc = append(desc, fmt.Sprintf("%s loading %d..%d us", describe(m.g), m.l.StartUs, m.l.EndUs))
				}
				c.Fail(rt, "C39.single-loader", fmt.Sprintf("loaders ran at the same time for key %q with no Del, overwrite, expiry, holder death or lock timeout in between: %s", key, strings.Join(desc, "; ")), plan)
			}
			cls["overlap-excused: "+strings.SplitN(excuse, " ", 2)[0]] = true
		}
	}
	// non-triviality: >= 3 Gets on one key overlapping in time across >= 2 clients, or a death during a load
	maxConc := 0
	for _, g := range run.Gets {
		if g.Kind == "del" || !g.Done || g.EndUs == g.StartUs {
			continue
		}
		n, clients := 0, map[int]bool{}
		for _, h := range run.Gets {
			if h.Kind != "del" && h.Done && h.Key == g.Key && h.StartUs <= g.StartUs && h.EndUs > g.StartUs {
				n++
				clients[h.Client] = true
			}
		}
		if len(clients) >= 2 && n > maxConc {
			maxConc = n
		}
	}
	switch {
	case maxConc >= 5:
		cls["concurrent-gets>=5"] = true
	case maxConc >= 3:
		cls["concurrent-gets-3..4"] = true
	}
	if plan.Typed {
		cls["typed"] = true
	}
	for _, pc := range plan.Clients {
		if pc.UseLua {
			cls["lua-lock"] = true
		} else {
			cls["set-nx-lock"] = true
		}
	}
	for k := range cls {
		classes = append(classes, k)
	}
	sort.Strings(classes)
	return maxConc >= 3 || deathDuringLoad, classes
}

func genC39Plan(rt *rapid.T) c39Plan {
	p := c39Plan{
		ClientTTLMs: rapid.SampledFrom([]int{60, 100, 250, 400}).Draw(rt, "clientTTL"),
		Typed:       rapid.IntRange(0, 3).Draw(rt, "typed") == 0,
		LatUs:       rapid.SliceOfN(rapid.SampledFrom([]int{0, 0, 50, 200, 500}), 1, 4).Draw(rt, "lat"),
	}
	nc := rapid.IntRange(2, 4).Draw(rt, "clients")
	nkeys := rapid.IntRange(1, 3).Draw(rt, "keys")
	keys := []string{"k1", "k2", "k3"}[:nkeys]
	latSum := map[string]int{}
	for i := 0; i < nc; i++ {
		pc := c39Client{UseLua: rapid.Bool().Draw(rt, "useLua"), Multiplex: rapid.SampledFrom([]int{-1, 0, 1}).Draw(rt, "multiplex")}
		ng := rapid.IntRange(1, 3).Draw(rt, "callers")
		for g := 0; g < ng; g++ {
			no := rapid.IntRange(1, 4).Draw(rt, "ops")
			var ops []c39Op
			for o := 0; o < no; o++ {
				op := c39Op{
					GapMs: rapid.SampledFrom([]int{0, 0, 0, 1, 2, 5, 10, 30}).Draw(rt, "gap"),
					Kind:  rapid.SampledFrom([]string{"get", "get", "get", "get", "get", "get", "peek", "del"}).Draw(rt, "kind"),
					Key:   rapid.SampledFrom(keys).Draw(rt, "key"),
				}
				if op.Kind == "get" {
					op.Loader = c39Loader{
						LatMs:   rapid.SampledFrom([]int{0, 1, 3, 8, 8, 20, 20, 50}).Draw(rt, "loadLat"),
						Outcome: rapid.SampledFrom([]string{"value", "value", "value", "value", "error", "empty"}).Draw(rt, "outcome"),
					}
					if rapid.IntRange(0, 7).Draw(rt, "override") == 0 {
						op.Loader.OverrideMs = rapid.SampledFrom([]int{1, 5, 40}).Draw(rt, "overrideMs")
					}
					latSum[op.Key] += op.Loader.LatMs
				}
				if op.Kind != "del" {
					op.Generous = rapid.IntRange(0, 4).Draw(rt, "shortTTL") != 0
					if !op.Generous {
						op.TTLMs = rapid.SampledFrom([]int{2, 5, 15, 30}).Draw(rt, "ttl")
					}
				}
				ops = append(ops, op)
			}
			pc.Callers = append(pc.Callers, ops)
		}
		p.Clients = append(p.Clients, pc)
	}
	ne := rapid.IntRange(0, 3).Draw(rt, "events")
	crashes := 0
	for i := 0; i < ne; i++ {
		e := c39Event{AtMs: rapid.SampledFrom([]int{0, 1, 2, 4, 6, 10, 15, 25, 40}).Draw(rt, "evAt"), Kind: rapid.SampledFrom([]string{"close", "crash", "crash", "kill", "kill", "ext-set", "ext-del"}).Draw(rt, "evKind")}
		switch e.Kind {
		case "ext-set", "ext-del":
			e.Key = rapid.SampledFrom(keys).Draw(rt, "evKey")
		default:
			e.Client = rapid.IntRange(0, nc-1).Draw(rt, "evClient")
			if e.Kind == "crash" || e.Kind == "kill" {
				// a disconnect can also strand a lock: the SET NX may have been executed with its reply lost, and the
				// DEL of the old client id that the client sends on disconnect fails when no connection is left, so
				// the lock stays until the old id key expires (nobody refreshes it any more)
				crashes++
			}
		}
		p.Events = append(p.Events, e)
	}
	// a generous TTL exceeds: every loader latency on the key (loads on a key are sequential at worst), the
	// liveness TTL of every crashed or disconnected client (its lock is released once its marker key has
	// expired), and slack
	for ci := range p.Clients {
		for gi := range p.Clients[ci].Callers {
			for oi := range p.Clients[ci].Callers[gi] {
				op := &p.Clients[ci].Callers[gi][oi]
				if op.Generous {
					op.TTLMs = latSum[op.Key] + crashes*(p.ClientTTLMs+p.ClientTTLMs/2) + 200
				}
			}
		}
	}
	return p
}

func TestVerif_C39_Aside(t *testing.T) {
	// Go 1.25.0 allocates the synctest "bubble special" of a WaitGroup without holding mheap_.speciallock
	// (runtime.getOrSetBubbleSpecial): first Add calls running in parallel on several Ps (every dial of a
	// rueidis connection does one) corrupt the span's specials list, which ends in "fatal error: sync:
	// WaitGroup.Add called from multiple synctest bubbles" or in a GC worker spinning for ever in
	// markrootSpans. One P serialises those calls.
	defer runtime.GOMAXPROCS(runtime.GOMAXPROCS(1))
	c := stat.For("C39", "cache-aside").Rule("timed plans in a synctest bubble: 2-4 rueidisaside clients (UseLuaLock on/off, ClientTTL 60-400 ms, PipelineMultiplex -1..1, plain or typed JSON wrapper) x 1-3 callers x 1-4 ops on 1-3 keys: Get with a loader of latency 0-50 ms and outcome value/error/empty (optionally OverrideCacheTTL), Get without loader, Del; events at generated instants: Close of a client, crash (connections dropped and re-dialling refused, so its liveness key expires), connection kill (reconnects), SET/DEL of a key by another client; server latency 0-0.5 ms; oracle: no successful result contains PlaceholderPrefix; a result is the call's own loader output or a value stored for the key at some instant of the call (server log); two loaders overlap on a key only after a Del/overwrite/expiry, the first holder's death or the lock TTL; a Get whose TTL exceeds all loader latencies on the key plus the liveness TTL of crashed clients never fails with a context error on a live client, nothing hangs; non-trivial = >= 3 Gets on one key overlapping in time across >= 2 clients, or a client death while one of its loaders runs")
	defer c.Flush()
	rapid.Check(t, func(rt *rapid.T) {
		plan := genC39Plan(rt)
		saveCase("c39", plan)
		run := c39Exec(t, plan)
		if run.Res.Frozen {
			c.Inconclusive("virtual-clock-freeze")
			return
		}
		tr := c39BuildTruth(run.Events)
		if tr.Unsupp {
			c.Inconclusive("lua-unsupported")
			return
		}
		nt, classes := c39Check(c, rt, plan, run, tr)
		key, _ := json.Marshal(plan)
		c.Eval(nt, string(key), classes...)
		c.Sample(nt, func() any { return plan })
	})
}
