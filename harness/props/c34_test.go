package props

// C34 "Distributed locks are mutually exclusive and notice loss": timed plans over 2-4 rueidislock
// lockers (each with its own client) on one fake server inside a synctest bubble.

import (
	"context"
	"encoding/json"
	"errors"
	"fmt"
	"os"
	"path/filepath"
	"runtime"
	"sort"
	"strconv"
	"strings"
	"sync"
	"testing"
	"time"

	"github.com/redis/rueidis"
	"github.com/redis/rueidis/rueidislock"
	"pgregory.net/rapid"
	"verif/harness/sim"
	"verifkit/bubble"
	"verifkit/fakeredis"
	"verifkit/resp"
	"verifkit/stat"
)

type c34Locker struct {
	NoLoop bool `json:"noloop"`
	SetPX  bool `json:"setpx"`
	// CloseLingerMs > 0: the locker gets its client through LockerOption.ClientBuilder, wrapped so that Client.Close
	// takes effect that much later (an application that shuts its connection down gracefully, or shares it). Without
	// it nothing a Locker does in Close can be seen on the server: rueidislock closes the client right after it has
	// told its key monitors, and their release scripts are refused by the closed client (the keys simply expire).
	CloseLingerMs int `json:"close_linger_ms,omitempty"`
}

// c34LingerClient delays Close; everything else is the client rueidislock asked for.
type c34LingerClient struct {
	rueidis.Client
	linger time.Duration
	once   sync.Once
}

func (c *c34LingerClient) Close() {
	c.once.Do(func() { time.AfterFunc(c.linger, c.Client.Close) })
}

type c34Op struct {
	GapMs  int    `json:"gap_ms"`
	Kind   string `json:"kind"` // with try force
	Name   string `json:"name"`
	HoldMs int    `json:"hold_ms"`
	// SabAfterMs > 0: that long after this call was granted another client deletes key SabKey of the name
	SabAfterMs int `json:"sab_after_ms,omitempty"`
	SabKey     int `json:"sab_key,omitempty"`
}

// c34Slow makes the server take LatMs (longer than TryNextAfter) for the first Times lock scripts that a locker
// sends for one key: the attempt gives that key up and goes on with the next one.
type c34Slow struct {
	Locker int    `json:"locker"`
	Name   string `json:"name"`
	Key    int    `json:"key"`
	LatMs  int    `json:"lat_ms"`
	Times  int    `json:"times"`
}

type c34Actor struct {
	Locker int     `json:"locker"`
	Ops    []c34Op `json:"ops"`
}

type c34Event struct {
	AtMs   int    `json:"at_ms"`
	Kind   string `json:"kind"` // del-one del-all pexpire flushall kill close squat (SET key to a foreign value with PX Ms)
	Name   string `json:"name,omitempty"`
	Key    int    `json:"key,omitempty"`
	Ms     int    `json:"ms,omitempty"`
	Locker int    `json:"locker,omitempty"`
}

type c34Plan struct {
	Prefix     string      `json:"prefix"` // LockerOption.KeyPrefix ("" = default)
	Names      []string    `json:"names"`
	Slow       []c34Slow   `json:"slow,omitempty"`
	Majority   int         `json:"majority"`
	ValidityMs int         `json:"validity_ms"`
	TryNextMs  int         `json:"try_next_ms"`
	LatUs      []int       `json:"lat_us"`
	Lockers    []c34Locker `json:"lockers"`
	Actors     []c34Actor  `json:"actors"`
	Events     []c34Event  `json:"events,omitempty"`
	WaitMs     int         `json:"wait_ms"` // deadline given to every WithContext: exceeds every legitimate wait
}

// c34Acq is one call of WithContext / TryWithContext / ForceWithContext.
type c34Acq struct {
	ID       int    `json:"id"`
	Actor    int    `json:"actor"`
	Op       int    `json:"op"`
	Locker   int    `json:"locker"`
	Kind     string `json:"kind"`
	Name     string `json:"name"`
	StartUs  int64  `json:"start_us"`
	StartOrd int64  `json:"start_ord"`
	RetUs    int64  `json:"ret_us"`
	RetOrd   int64  `json:"ret_ord"`
	Returned bool   `json:"returned"`
	Acquired bool   `json:"acquired"`
	Err      string `json:"err,omitempty"`
	ErrKind  string `json:"err_kind,omitempty"` // notlocked closed ctx other
	DoneUs   int64  `json:"done_us"`            // when the lock context was seen done
	Done     bool   `json:"done"`
	RelUs    int64  `json:"rel_us"` // when the holder called its cancel function
	Released bool   `json:"released"`
	RelRet   bool   `json:"rel_ret"` // the cancel function returned
	Val      string `json:"val,omitempty"`
	Ambig    bool   `json:"ambig,omitempty"`
	ctx      context.Context
}

// c34Script is one execution of a lock script on the server, observed inside the AfterExec hook.
type c34Script struct {
	Ord    int64  `json:"ord"`
	AtUs   int64  `json:"at_us"`
	Kind   string `json:"kind"` // set extend delkey
	Locker int    `json:"locker"`
	Key    string `json:"key"`
	Name   string `json:"name"`
	Val    string `json:"val"`
	OK     bool   `json:"ok"`    // the script changed / confirmed the key (SET done, extend 1, DEL 1)
	Count  int    `json:"count"` // keys of the name holding Val right after the script
	// Prev: the live (unexpired) value the key held just before the script ran (HadPrev false: no such key)
	Prev    string `json:"prev,omitempty"`
	HadPrev bool   `json:"had_prev,omitempty"`
	SlowMs  int    `json:"slow_ms,omitempty"` // the plan made the server take this long for the script (> TryNextAfter)
	Live    []int  `json:"live"`              // ids of the acquisitions whose lock context was not done at that instant
	Unsupp  bool   `json:"unsupp,omitempty"`
}

type c34SlowHit struct {
	Locker int    `json:"locker"`
	AtUs   int64  `json:"at_us"`
	Key    string `json:"key"`
}

type c34Sab struct {
	AtUs int64  `json:"at_us"`
	Name string `json:"name"`
	Key  int    `json:"key"`
}

type c34Run struct {
	Res     bubble.Result
	Acqs    []*c34Acq
	Scripts []c34Script
	Events  []fakeredis.Event
	ExtAt   []int64 // instants of the plan events (same order as plan.Events)
	Sabs    []c34Sab
	// SlowHits: scripts the plan slowed down (also those answered with NOSCRIPT, which never show up as executed)
	SlowHits []c34SlowHit
	Pending  int
	CloseOK  bool
	Unsupp   bool
}

// prefix is the effective key prefix (LockerOption.KeyPrefix "" means the documented default).
func (p c34Plan) prefix() string {
	if p.Prefix == "" {
		return "rueidislock"
	}
	return p.Prefix
}

// key is the documented key layout prefix:index:name.
func (p c34Plan) key(name string, i int) string {
	return p.prefix() + ":" + strconv.Itoa(i) + ":" + name
}

// nameOf maps a key back to (lock name, index) by comparing it with the keys of the plan's names: prefixes and
// names may contain colons themselves, so the key is not parsed.
func (p c34Plan) nameOf(key string) (name string, idx int, ok bool) {
	for _, n := range p.Names {
		for i := 0; i < p.Majority*2-1; i++ {
			if p.key(n, i) == key {
				return n, i, true
			}
		}
	}
	return "", 0, false
}

func c34Classify(body string) string {
	switch {
	case strings.Contains(body, `"DEL"`):
		return "delkey"
	case strings.Contains(body, `"PEXPIREAT"`):
		return "extend"
	case strings.Contains(body, `"SET"`):
		// the acquiring scripts (SET .. NX) and the forcing ones (plain SET) are not told apart by their text: the
		// oracle looks at what they did (c34Script.Prev), not at what they say
		return "set"
	}
	return ""
}

func c34Exec(t *testing.T, plan c34Plan) (run c34Run) {
	var mu sync.Mutex
	var ord int64
	next := func() int64 { ord++; return ord } // call with mu held
	total := plan.Majority*2 - 1
	for ai, a := range plan.Actors {
		for oi, op := range a.Ops {
			run.Acqs = append(run.Acqs, &c34Acq{ID: len(run.Acqs), Actor: ai, Op: oi, Locker: a.Locker, Kind: op.Kind, Name: op.Name})
		}
	}
	idx := func(ai, oi int) *c34Acq {
		for _, a := range run.Acqs {
			if a.Actor == ai && a.Op == oi {
				return a
			}
		}
		panic("harness: no slot")
	}
	run.ExtAt = make([]int64, len(plan.Events))
	for i := range run.ExtAt {
		run.ExtAt[i] = -1 // not fired
	}
	run.Res = bubble.Run(t, func() {
		w := fakeredis.NewWorld()
		srv := w.NewServer("127.0.0.1:6379")
		clock := sim.NewClock()
		var latN int
		slowUsed := make([]int, len(plan.Slow))
		slowReq := map[[2]int]int{} // (connection, request) -> slow latency applied; under mu
		srv.Hooks.Latency = func(c *fakeredis.Conn, req int, argv []string) time.Duration {
			if c.BurstIdx != 0 {
				return 0
			}
			switch strings.ToUpper(argv[0]) {
			case "EVALSHA", "EVAL":
				if len(argv) >= 5 {
					for i, sl := range plan.Slow {
						if argv[3] == plan.key(sl.Name, sl.Key) && c.ClientName() == fmt.Sprintf("locker%d", sl.Locker) {
							mu.Lock()
							left := sl.Times - slowUsed[i]
							if left > 0 {
								slowUsed[i]++
							}
							mu.Unlock()
							if left > 0 {
								mu.Lock()
								slowReq[[2]int{c.ID, req}] = sl.LatMs
								run.SlowHits = append(run.SlowHits, c34SlowHit{Locker: sl.Locker, AtUs: clock.Us(), Key: argv[3]})
								mu.Unlock()
								return time.Duration(sl.LatMs) * time.Millisecond
							}
						}
					}
				}
				mu.Lock()
				d := plan.LatUs[latN%len(plan.LatUs)]
				latN++
				mu.Unlock()
				return time.Duration(d) * time.Microsecond
			}
			return 0
		}
		kinds := map[string]string{}
		type prevKey struct{ conn, req int }
		prevs := map[prevKey]*string{} // world-locked
		srv.Hooks.Command = func(c *fakeredis.Conn, req int, argv []string) (resp.Value, bool) {
			cmd := strings.ToUpper(argv[0])
			if (cmd == "EVAL" || cmd == "EVALSHA") && len(argv) >= 5 {
				if _, _, ok := plan.nameOf(argv[3]); ok {
					if v, ok := srv.PeekStringLocked(argv[3]); ok {
						prevs[prevKey{c.ID, req}] = &v
					}
				}
			}
			return resp.Value{}, false
		}
		srv.Hooks.AfterExec = func(c *fakeredis.Conn, req int, argv []string, reply resp.Value) {
			// world locked
			cmd := strings.ToUpper(argv[0])
			if cmd != "EVAL" && cmd != "EVALSHA" || len(argv) < 5 {
				return
			}
			sha := strings.ToLower(argv[1])
			if cmd == "EVAL" {
				sha = sha1Hex(argv[1])
				kinds[sha] = c34Classify(argv[1])
			}
			if reply.IsErr() {
				if strings.Contains(reply.S, "FAKEREDIS-LUA-UNSUPPORTED") {
					mu.Lock()
					run.Unsupp = true
					mu.Unlock()
				}
				return
			}
			kind := kinds[sha]
			name, _, ok := plan.nameOf(argv[3])
			if kind == "" || !ok {
				return
			}
			rec := c34Script{AtUs: clock.Us(), Kind: kind, Locker: -1, Key: argv[3], Name: name, Val: argv[4]}
			if n := c.ClientName(); strings.HasPrefix(n, "locker") {
				rec.Locker, _ = strconv.Atoi(n[len("locker"):])
			}
			if p := prevs[prevKey{c.ID, req}]; p != nil {
				rec.Prev, rec.HadPrev = *p, true
				delete(prevs, prevKey{c.ID, req})
			}
			switch kind {
			case "set":
				rec.OK = reply.T == '+'
			default:
				rec.OK = reply.T == ':' && reply.I == 1
			}
			for i := 0; i < total; i++ {
				if v, ok := srv.PeekStringLocked(plan.key(name, i)); ok && v == rec.Val {
					rec.Count++
				}
			}
			mu.Lock()
			rec.SlowMs = slowReq[[2]int{c.ID, req}]
			rec.Ord = next()
			for _, a := range run.Acqs {
				if a.Acquired && a.ctx != nil && a.ctx.Err() == nil {
					rec.Live = append(rec.Live, a.ID)
				}
			}
			run.Scripts = append(run.Scripts, rec)
			mu.Unlock()
		}
		nets := make([]*c39Net, len(plan.Lockers))
		lockers := make([]rueidislock.Locker, len(plan.Lockers))
		for i, pl := range plan.Lockers {
			nets[i] = &c39Net{}
			opt := sim.Option(w, "127.0.0.1:6379")
			opt.ForceSingleClient = true
			opt.ClientName = fmt.Sprintf("locker%d", i)
			opt.WriteBufferEachConn = 1 << 20
			opt.DialCtxFn = nets[i].dialer(opt.DialCtxFn)
			var builder func(rueidis.ClientOption) (rueidis.Client, error)
			if pl.CloseLingerMs > 0 {
				linger := time.Duration(pl.CloseLingerMs) * time.Millisecond
				builder = func(o rueidis.ClientOption) (rueidis.Client, error) {
					c, err := rueidis.NewClient(o)
					if err != nil {
						return nil, err
					}
					return &c34LingerClient{Client: c, linger: linger}, nil
				}
			}
			l, err := rueidislock.NewLocker(rueidislock.LockerOption{
				ClientBuilder:  builder,
				ClientOption:   opt,
				KeyPrefix:      plan.Prefix,
				KeyValidity:    time.Duration(plan.ValidityMs) * time.Millisecond,
				TryNextAfter:   time.Duration(plan.TryNextMs) * time.Millisecond,
				KeyMajority:    int32(plan.Majority),
				NoLoopTracking: pl.NoLoop,
				FallbackSETPX:  pl.SetPX,
			})
			if err != nil {
				panic(fmt.Sprintf("harness: NewLocker failed: %v", err))
			}
			lockers[i] = l
		}
		var wg sync.WaitGroup
		for ai, pa := range plan.Actors {
			wg.Add(1)
			go func(ai int, pa c34Actor) {
				defer wg.Done()
				l := lockers[pa.Locker]
				for oi, op := range pa.Ops {
					time.Sleep(time.Duration(op.GapMs) * time.Millisecond)
					a := idx(ai, oi)
					mu.Lock()
					a.StartUs, a.StartOrd = clock.Us(), next()
					mu.Unlock()
					var ctx context.Context
					var cancel context.CancelFunc
					var err error
					src, srcCancel := context.WithTimeout(context.Background(), time.Duration(plan.WaitMs)*time.Millisecond)
					switch op.Kind {
					case "with":
						ctx, cancel, err = l.WithContext(src, op.Name)
					case "try":
						ctx, cancel, err = l.TryWithContext(src, op.Name)
					case "force":
						ctx, cancel, err = l.ForceWithContext(src, op.Name)
					}
					mu.Lock()
					a.RetUs, a.RetOrd, a.Returned = clock.Us(), next(), true
					if err != nil {
						a.Err = err.Error()
						switch {
						case errors.Is(err, rueidislock.ErrNotLocked):
							a.ErrKind = "notlocked"
						case errors.Is(err, rueidislock.ErrLockerClosed):
							a.ErrKind = "closed"
						case isCtxErr(err):
							a.ErrKind = "ctx"
						default:
							a.ErrKind = "other"
						}
					} else {
						a.Acquired, a.ctx = true, ctx
					}
					mu.Unlock()
					if err != nil {
						srcCancel()
						continue
					}
					go func() {
						<-ctx.Done()
						mu.Lock()
						a.DoneUs, a.Done = clock.Us(), true
						mu.Unlock()
					}()
					if op.SabAfterMs > 0 {
						time.AfterFunc(time.Duration(op.SabAfterMs)*time.Millisecond, func() {
							mu.Lock()
							run.Sabs = append(run.Sabs, c34Sab{AtUs: clock.Us(), Name: op.Name, Key: op.SabKey})
							mu.Unlock()
							srv.Do("DEL", plan.key(op.Name, op.SabKey))
						})
					}
					tm := time.NewTimer(time.Duration(op.HoldMs) * time.Millisecond)
					select {
					case <-tm.C:
					case <-ctx.Done():
						// a holder that lost the lock stops working; it still releases what is left
						tm.Stop()
					}
					mu.Lock()
					a.RelUs, a.Released = clock.Us(), true
					mu.Unlock()
					cancel()
					mu.Lock()
					a.RelRet = true
					mu.Unlock()
					srcCancel()
				}
			}(ai, pa)
		}
		for ei, e := range plan.Events {
			ei, e := ei, e
			time.AfterFunc(time.Duration(e.AtMs)*time.Millisecond, func() {
				mu.Lock()
				run.ExtAt[ei] = clock.Us()
				mu.Unlock()
				switch e.Kind {
				case "del-one":
					srv.Do("DEL", plan.key(e.Name, e.Key))
				case "del-all":
					args := []string{"DEL"}
					for i := 0; i < total; i++ {
						args = append(args, plan.key(e.Name, i))
					}
					srv.Do(args...)
				case "pexpire":
					srv.Do("PEXPIRE", plan.key(e.Name, e.Key), strconv.Itoa(e.Ms))
				case "flushall":
					srv.Do("FLUSHALL")
				case "squat":
					// NX: a stale value sits on a key that was free, it never replaces a live one
					srv.Do("SET", plan.key(e.Name, e.Key), fmt.Sprintf("squat-%d", ei), "NX", "PX", strconv.Itoa(e.Ms))
				case "kill":
					nets[e.Locker].drop(false)
				case "close":
					lockers[e.Locker].Close()
				}
			})
		}
		finished := sim.WaitTimeout(&wg, time.Duration(plan.WaitMs)*time.Millisecond*4+time.Minute)
		if !finished {
			mu.Lock()
			for _, a := range run.Acqs {
				if a.StartOrd != 0 && (!a.Returned || (a.Released && !a.RelRet)) {
					run.Pending++
				}
			}
			mu.Unlock()
		}
		run.CloseOK = sim.CallTimeout(time.Minute, func() {
			for _, l := range lockers {
				l.Close()
			}
		})
		time.Sleep(time.Second)
		w.Stop()
		run.Events = w.Snapshot()
		time.Sleep(5 * time.Second)
		if !finished {
			sim.WaitTimeout(&wg, time.Minute)
		}
	})
	return
}

// ---- truth from the server log: which value each lock key held over time

type c34Loss struct {
	MajAt  int64 // first instant the value was in >= majority keys (-1: never)
	LossAt int64 // start of the current / last period in which it was in fewer (-1: never)
	Why    string
	// Deficits are the periods [from, to) after MajAt in which the value was in fewer than majority keys
	// (to == -1: until the end). A holder can regain its majority: the keys beyond the majority are taken in
	// the background after the lock has been granted.
	Deficits [][2]int64
	open     bool
}

func c34Truth(plan c34Plan, events []fakeredis.Event) map[string]*c34Loss {
	kinds := map[string]string{}
	for _, e := range events {
		if len(e.Argv) > 1 && strings.EqualFold(e.Argv[0], "EVAL") {
			kinds[sha1Hex(e.Argv[1])] = c34Classify(e.Argv[1])
		}
	}
	keyVal := map[string]string{} // key -> value (values are unique random strings, one per lock attempt)
	nameOf := map[string]string{} // value -> lock name
	out := map[string]*c34Loss{}
	total := plan.Majority*2 - 1
	recount := func(at int64, name, why string) {
		counts := map[string]int{}
		for i := 0; i < total; i++ {
			if v, ok := keyVal[plan.key(name, i)]; ok {
				counts[v]++
			}
		}
		for v, n := range counts {
			l := out[v]
			if l == nil {
				l = &c34Loss{MajAt: -1, LossAt: -1}
				out[v] = l
			}
			if n >= plan.Majority && l.MajAt < 0 {
				l.MajAt = at
			}
		}
		for v, l := range out {
			if nameOf[v] != name || l.MajAt < 0 {
				continue
			}
			if counts[v] < plan.Majority && !l.open {
				l.open = true
				l.LossAt, l.Why = at, why
				l.Deficits = append(l.Deficits, [2]int64{at, -1})
			} else if counts[v] >= plan.Majority && l.open {
				l.open = false
				l.Deficits[len(l.Deficits)-1][1] = at
			}
		}
	}
	for _, e := range events {
		switch e.Kind {
		case "exec":
			switch e.Argv[0] {
			case "<expire>":
				if name, _, ok := plan.nameOf(e.Argv[1]); ok {
					delete(keyVal, e.Argv[1])
					recount(e.At, name, "key expired")
				}
			case "DEL":
				names := map[string]bool{}
				for _, k := range e.Argv[1:] {
					if name, _, ok := plan.nameOf(k); ok {
						delete(keyVal, k)
						names[name] = true
					}
				}
				for _, n := range plan.Names {
					if names[n] {
						recount(e.At, n, "key deleted by another client")
					}
				}
			case "SET":
				if name, _, ok := plan.nameOf(e.Argv[1]); ok {
					if _, taken := keyVal[e.Argv[1]]; taken {
						continue // SET .. NX on a key that holds a value
					}
					keyVal[e.Argv[1]] = e.Argv[2]
					nameOf[e.Argv[2]] = name
					recount(e.At, name, "key overwritten by another client")
				}
			case "FLUSHALL":
				keyVal = map[string]string{}
				for _, n := range plan.Names {
					recount(e.At, n, "FLUSHALL")
				}
			}
		case "reply":
			if e.Reply == nil || len(e.Argv) < 5 || e.Reply.IsErr() {
				continue
			}
			cmd := strings.ToUpper(e.Argv[0])
			if cmd != "EVAL" && cmd != "EVALSHA" {
				continue
			}
			sha := strings.ToLower(e.Argv[1])
			if cmd == "EVAL" {
				sha = sha1Hex(e.Argv[1])
			}
			name, _, ok := plan.nameOf(e.Argv[3])
			if !ok {
				continue
			}
			switch kinds[sha] {
			case "set":
				if e.Reply.T == '+' {
					keyVal[e.Argv[3]] = e.Argv[4]
					nameOf[e.Argv[4]] = name
					recount(e.At, name, "key taken over")
				}
			case "delkey":
				if e.Reply.T == ':' && e.Reply.I == 1 {
					delete(keyVal, e.Argv[3])
					recount(e.At, name, "released by its owner")
				}
			}
		}
	}
	return out
}

type c34Failer struct {
	c    *stat.Collector
	dump func()
}

func (f c34Failer) Fail(rt stat.Fataler, clause, detail string, cas any) {
	f.dump()
	f.c.Fail(rt, clause, detail, cas)
}

func c34Check(col *stat.Collector, rt stat.Fataler, plan c34Plan, run c34Run) (nt bool, classes []string) {
	c := c34Failer{c: col, dump: func() {
		if d := os.Getenv("C34_DEBUG"); d != "" {
			var sb strings.Builder
			for _, e := range run.Events {
				sb.WriteString(e.String() + "\n")
			}
			os.WriteFile(d+"/c34-events.txt", []byte(sb.String()), 0o644)
			b, _ := json.Marshal(map[string]any{"plan": plan, "acqs": run.Acqs, "scripts": run.Scripts, "ext_at": run.ExtAt, "sabs": run.Sabs, "slow_hits": run.SlowHits})
			os.WriteFile(d+"/c34-obs.json", b, 0o644)
		}
	}}
	if os.Getenv("C34_DEBUG_ALL") != "" {
		c.dump()
	}
	if run.Res.Deadlock || run.Pending > 0 {
		c.Fail(rt, "C34.no-hang", fmt.Sprintf("%d lock calls or releases never returned (%s)", run.Pending, run.Res), plan)
	}
	if run.Res.Panic != nil {
		c.Fail(rt, "C34.no-panic", run.Res.String(), plan)
	}
	if !run.CloseOK {
		c.Fail(rt, "C34.close-returns", "Locker.Close did not return within a virtual minute", plan)
	}
	// "promptly": the loss is learnt through an invalidation push and confirmed by one script round trip per key; a
	// locker has one connection for everything, so up to 2 x (2*majority-1) scripts (first use: EVALSHA, NOSCRIPT,
	// EVAL) plus the other actors' scripts queue up behind each other, each with the plan's server latency.
	promptUs := int64(5000)
	for _, l := range plan.LatUs {
		if int64(20*l) > promptUs-5000 {
			promptUs = 5000 + int64(20*l)
		}
	}
	cls := map[string]bool{}
	truth := c34Truth(plan, run.Events)
	describe := func(a *c34Acq) string {
		return fmt.Sprintf("acquisition %d (locker %d actor %d op %d %s %q, called %d us, returned %d us, context done %v at %d us)", a.ID, a.Locker, a.Actor, a.Op, a.Kind, a.Name, a.StartUs, a.RetUs, a.Done, a.DoneUs)
	}
	anyForce := false
	for _, a := range run.Acqs {
		if a.Kind == "force" && a.StartOrd != 0 {
			anyForce = true
		}
	}
	basePromptUs := promptUs
	promptOf := func(locker int) int64 {
		p := basePromptUs
		for _, sl := range plan.Slow {
			if sl.Locker == locker {
				p += int64(sl.LatMs*sl.Times) * 1000 // a slowed script blocks the locker's only connection that long
			}
		}
		return p
	}
	eventAt := func(kind string, locker int) []int64 {
		var out []int64
		for i, e := range plan.Events {
			if e.Kind == kind && e.Locker == locker && run.ExtAt[i] >= 0 {
				out = append(out, run.ExtAt[i])
			}
		}
		return out
	}
	// ---- bind every successful acquisition to the value its locker wrote: the value that reached a majority of the
	// name's keys through scripts of that locker between the call and its return (clause 5 when there is none)
	byRet := append([]*c34Acq(nil), run.Acqs...)
	sort.SliceStable(byRet, func(i, j int) bool { return byRet[i].RetOrd < byRet[j].RetOrd })
	assigned := map[string]bool{}
	// A WithContext call makes one attempt after the other, each with a fresh value, and only the last one is granted.
	// An earlier attempt can have had its value in a majority of the keys on the server and still have failed for the
	// client (replies later than TryNextAfter behind the other scripts queued on the locker's only connection); try()
	// returns from such an attempt only after every monitor has run its release script. The granted attempt is told
	// apart by what the client did: at least `majority` of the keys its scripts set have not been sent a release
	// script for that value when the call returns (monitors of the keys that count as acquired only release after the
	// lock context has ended). A value with fewer such keys belongs to an attempt that had been given up.
	setKeys := map[string]map[string]int64{} // value -> key -> order of the first set script that took it
	delOrd := map[string]map[string]int64{}  // value -> key -> order of the first release script for it
	for _, s := range run.Scripts {
		switch {
		case s.Kind == "set" && s.OK:
			if setKeys[s.Val] == nil {
				setKeys[s.Val] = map[string]int64{}
			}
			if _, seen := setKeys[s.Val][s.Key]; !seen {
				setKeys[s.Val][s.Key] = s.Ord
			}
		case s.Kind == "delkey":
			if delOrd[s.Val] == nil {
				delOrd[s.Val] = map[string]int64{}
			}
			if _, seen := delOrd[s.Val][s.Key]; !seen {
				delOrd[s.Val][s.Key] = s.Ord
			}
		}
	}
	givenUpBefore := func(val string, ord int64) bool {
		kept := 0
		for k, taken := range setKeys[val] {
			if taken > ord {
				continue // taken after the call had returned (a key beyond the majority, in the background)
			}
			if d, released := delOrd[val][k]; !released || d > ord {
				kept++
			}
		}
		return kept < plan.Majority
	}
	// Candidates of a granted call: values that scripts of its locker brought into a majority of the name's keys
	// between the call and its return, whose first script ran after the call (an attempt draws its value inside the
	// call), whose latest key was taken at the very instant the call returned (try() returns as soon as the reply
	// for the last key it needs is in; the fake answers at the instant it executes, and the value of an attempt that
	// was granted to another call long before may reach its majority late, with the keys it takes in the background)
	// and that had not been given up when the call returned. Calls of one locker on one name overlap (several
	// actors share a locker), so a value can be a candidate of more than one call and a call can have more than one
	// candidate: a call with exactly one candidate takes it, which removes it from the others, until nothing changes;
	// what then still has several candidates is ambiguous and skipped by the clauses that need the value.
	firstOrd := map[string]int64{}
	for _, s := range run.Scripts {
		if _, seen := firstOrd[s.Val]; !seen {
			firstOrd[s.Val] = s.Ord
		}
	}
	candsOf := map[*c34Acq][]string{}
	givenUpSeen := map[string]bool{}
	mixedAcq := map[*c34Acq]bool{}
	soft := map[string]bool{} // candidates of a call that is ambiguous for good: never bound to another call either
	for _, a := range byRet {
		if !a.Acquired {
			continue
		}
		// (Close ends every lock context: the monitors of a lock that is being granted at that moment may release first)
		closedBy := false
		for _, at := range eventAt("close", a.Locker) {
			if at <= a.RetUs {
				closedBy = true
			}
		}
		var cands []string
		seen := map[string]bool{}
		listed := map[string]bool{}
		atReturn := map[string]bool{} // the value's latest successful set script in the call ran at the instant of the return
		for i := len(run.Scripts) - 1; i >= 0; i-- {
			s := run.Scripts[i]
			if s.Ord > a.StartOrd && s.Ord < a.RetOrd && s.Locker == a.Locker && s.Name == a.Name && s.Kind == "set" && s.OK {
				if !seen[s.Val] {
					seen[s.Val] = true
					atReturn[s.Val] = s.AtUs == a.RetUs
				}
				if s.Count < plan.Majority || !atReturn[s.Val] || firstOrd[s.Val] < a.StartOrd || listed[s.Val] {
					continue
				}
				listed[s.Val] = true
				if !closedBy && givenUpBefore(s.Val, a.RetOrd) {
					givenUpSeen[s.Val] = true
					continue
				}
				cands = append(cands, s.Val)
			}
		}
		candsOf[a] = cands
		// a forcing and a non-forcing call of one locker on one name at the same time: their values cannot be told apart
		for _, b := range run.Acqs {
			if b != a && b.StartOrd != 0 && b.Locker == a.Locker && b.Name == a.Name && (b.Kind == "force") != (a.Kind == "force") && b.StartOrd < a.RetOrd && (!b.Returned || b.RetOrd > a.StartOrd) {
				mixedAcq[a] = true
			}
		}
		if mixedAcq[a] {
			for _, v := range cands {
				soft[v] = true
			}
		}
	}
	for changed := true; changed; {
		changed = false
		for _, a := range byRet {
			if !a.Acquired || mixedAcq[a] || len(candsOf[a]) != 1 || assigned[candsOf[a][0]] {
				continue
			}
			v := candsOf[a][0]
			assigned[v], changed = true, true
			for _, b := range byRet {
				if b == a || mixedAcq[b] {
					continue
				}
				kept := candsOf[b][:0:0]
				for _, w := range candsOf[b] {
					if w != v {
						kept = append(kept, w)
					}
				}
				candsOf[b] = kept
			}
		}
	}
	for _, a := range byRet {
		if !a.Acquired {
			continue
		}
		cands := candsOf[a]
		if mixedAcq[a] {
			a.Ambig = true
			cls["ambiguous-binding"] = true
			continue
		}
		if len(cands) == 0 {
			// Signature of finding C34.granted-without-majority: keys taken earlier in the same attempt were removed by
			// another client (DEL / FLUSHALL / expiry after PEXPIRE / forced takeover) before the attempt had collected
			// its last key; try() counts script replies and grants the lock although the value never was in a
			// majority of the keys at one instant.
			interfered := false
			for i, e := range plan.Events {
				if (e.Kind == "del-one" || e.Kind == "del-all" || e.Kind == "pexpire" || e.Kind == "flushall") && (e.Name == a.Name || e.Kind == "flushall") && run.ExtAt[i] >= a.StartUs && run.ExtAt[i] <= a.RetUs {
					interfered = true
				}
			}
			for _, sb := range run.Sabs {
				if sb.Name == a.Name && sb.AtUs >= a.StartUs && sb.AtUs <= a.RetUs {
					interfered = true
				}
			}
			for _, ev := range run.Events {
				if ev.Kind == "exec" && ev.Argv[0] == "<expire>" && ev.At >= a.StartUs && ev.At <= a.RetUs {
					if n, _, ok := plan.nameOf(ev.Argv[1]); ok && n == a.Name {
						interfered = true
					}
				}
			}
			for _, b := range run.Acqs {
				if b.Kind == "force" && b.StartOrd != 0 && b.Name == a.Name && b.StartOrd < a.RetOrd && (!b.Returned || b.RetOrd > a.StartOrd) {
					interfered = true
				}
			}
			if interfered && c.c.Known("C34.granted-without-majority") {
				a.Ambig = true // its value is unknown: skip the clauses that need it
				cls["granted-without-majority"] = true
				continue
			}
			var mine []string
			for _, s := range run.Scripts {
				if s.Ord > a.StartOrd && s.Ord < a.RetOrd && s.Locker == a.Locker && s.Name == a.Name {
					mine = append(mine, fmt.Sprintf("%s %s ok=%v count=%d", s.Kind, s.Key, s.OK, s.Count))
				}
			}
			c.Fail(rt, "C34.acquired-majority", fmt.Sprintf("%s succeeded although none of the values its locker wrote during the call was in %d of the %d keys at any script execution: %v", describe(a), plan.Majority, plan.Majority*2-1, mine), plan)
		}
		a.Val, a.Ambig = cands[0], len(cands) > 1 || soft[cands[0]]
		if a.Ambig {
			cls["ambiguous-binding"] = true
		}
	}
	byVal := map[string]*c34Acq{}
	byID := map[int]*c34Acq{}
	for _, a := range run.Acqs {
		byID[a.ID] = a
		if a.Acquired && !a.Ambig {
			byVal[a.Val] = a
		}
	}
	for v := range givenUpSeen {
		if byVal[v] == nil {
			cls["earlier-attempt-reached-majority-on-server"] = true
		}
	}
	// ---- clause 3: the holder's context is done before it releases a key
	// Which keys did an attempt give up? An attempt tries its keys one after the other, each for at most TryNextAfter;
	// a key whose SET the server executed later than that counts as failed for the client, which deletes it again
	// ("clean-up") and never regards it as held. From the execution instants e_i of an attempt's SET scripts: the
	// script for key i was sent at s_i = min(e_(i-1), s_(i-1)+T) and was given up if e_i >= s_i+T. The start of the
	// attempt is only known to lie after the call, which errs on the side of "given up" (not judged).
	gaveUp := map[string]map[string]bool{}
	{
		tryNext := int64(plan.TryNextMs) * 1000
		byValKey := map[string]map[int]int64{}
		callStart := map[string]int64{}
		for _, sc := range run.Scripts {
			if sc.Kind != "set" {
				continue
			}
			if _, idx, ok := plan.nameOf(sc.Key); ok {
				if byValKey[sc.Val] == nil {
					byValKey[sc.Val] = map[int]int64{}
				}
				if _, seen := byValKey[sc.Val][idx]; !seen {
					byValKey[sc.Val][idx] = sc.AtUs
				}
			}
		}
		for _, a := range run.Acqs {
			if a.Val != "" {
				callStart[a.Val] = a.StartUs
			}
		}
		for v, es := range byValKey {
			gaveUp[v] = map[string]bool{}
			var nm string
			for _, sc := range run.Scripts {
				if sc.Val == v {
					nm = sc.Name
					break
				}
			}
			send := callStart[v] // 0 if the value belongs to an attempt that was not granted: everything is "given up"
			for i := 0; i < plan.Majority*2-1; i++ {
				e, tried := es[i]
				if !tried {
					continue
				}
				if e >= send+tryNext {
					gaveUp[v][plan.key(nm, i)] = true
					send += tryNext
				} else {
					send = e
				}
			}
		}
	}
	// (A release of a surplus key is not judged: an acquire script whose reply came later than TryNextAfter counts as a
	// failure for the client although the server has set the key, and the client cleans that key up while it goes
	// on to hold the lock with the others.)
	for _, s := range run.Scripts {
		if s.Kind != "delkey" || !s.OK || s.Count >= plan.Majority {
			continue
		}
		a := byVal[s.Val]
		if a == nil || gaveUp[s.Val][s.Key] {
			continue
		}
		for _, id := range s.Live {
			if id == a.ID {
				c.Fail(rt, "C34.done-before-release", fmt.Sprintf("the server executed the release script of %s for key %s at %d us, leaving its value in %d keys (majority %d), while that holder's lock context was not done yet", describe(a), s.Key, s.AtUs, s.Count, plan.Majority), plan)
			}
		}
	}
	// ---- clause 2: a holder that no longer owns a majority is cancelled promptly (healthy connection)
	lostFor := func(a *c34Acq, at int64) (since int64, lost bool) { // is a's value below the majority at instant at?
		l := truth[a.Val]
		if l == nil {
			return 0, false
		}
		for _, d := range l.Deficits {
			if d[0] <= at && (d[1] < 0 || d[1] > at) {
				return d[0], true
			}
		}
		return 0, false
	}
	for _, a := range run.Acqs {
		if !a.Acquired || a.Ambig {
			continue
		}
		l := truth[a.Val]
		if l == nil {
			continue
		}
		promptUs := promptOf(a.Locker)
		maxCount := 0
		for _, sc := range run.Scripts {
			if sc.Val == a.Val && sc.Count > maxCount {
				maxCount = sc.Count
			}
		}
		partial := maxCount < plan.Majority*2-1
		if partial && plan.Majority >= 2 {
			cls["holder-never-held-every-key"] = true
		}
		for _, d := range l.Deficits {
			cls["lost: "+l.Why] = true
			if partial && plan.Majority >= 2 && !strings.HasPrefix(l.Why, "released") {
				cls["partial-holder-lost-a-key"] = true
			}
			if d[1] >= 0 && d[1]-d[0] <= promptUs {
				cls["majority-regained"] = true
				continue // regained its majority in time (background acquisition of the remaining keys)
			}
			// a locker whose connection was dropped re-reads (and re-tracks) its keys as soon as it has reconnected; only a
			// loss right around the disconnect can go unnoticed until the next periodic extension
			healthy := true
			for _, at := range eventAt("kill", a.Locker) {
				if at >= d[0]-50000 && at <= d[0]+promptUs {
					healthy = false
				}
			}
			if !healthy {
				cls["loss-while-disconnected"] = true
				continue
			}
			if !a.Done || a.DoneUs > d[0]+promptUs {
				// Signature of finding C34.shared-signal-consumed: another attempt of the SAME locker on the same name ran
				// its acquire scripts around the instant of the loss. All attempts and holders of one name in a Locker share
				// the per-key notification channels (gate.csc, capacity 1); a new attempt drains them before acquiring and any
				// monitor may receive a signal meant for another, so the holder only learns of its loss at its next periodic
				// extension (ExtendInterval = validity/2).
				stolen := false
				for _, s := range run.Scripts {
					if s.Locker == a.Locker && s.Name == a.Name && s.Val != a.Val && s.Kind == "set" && s.AtUs >= d[0]-1000 && s.AtUs <= d[0]+promptUs {
						stolen = true
					}
				}
				interval := int64(plan.ValidityMs) * 1000 / 2
				if stolen && a.Done && a.DoneUs <= d[0]+interval+promptUs && c.c.Known("C34.shared-signal-consumed") {
					cls["shared-signal-consumed"] = true
					continue
				}
				c.Fail(rt, "C34.prompt-cancel", fmt.Sprintf("%s: its value has been in fewer than %d keys since %d us (%s) but the lock context was still live %d us later", describe(a), plan.Majority, d[0], l.Why, promptUs), plan)
			}
		}
	}
	// ---- clause 1: at most one live holder per name (no Force in the history; a holder that has already lost its
	// majority is the business of clause 2)
	if !anyForce {
		// no lock script may overwrite a key that still holds another attempt's value
		for _, s := range run.Scripts {
			if s.Kind == "set" && s.OK && s.HadPrev && s.Prev != s.Val {
				holder := "an attempt that was not granted"
				if h := byVal[s.Prev]; h != nil {
					holder = describe(h)
				}
				c.Fail(rt, "C34.mutual-exclusion", fmt.Sprintf("at %d us a lock script of locker %d overwrote key %s although it still held the live value of %s, and nobody used ForceWithContext", s.AtUs, s.Locker, s.Key, holder), plan)
			}
		}
		for i, a := range run.Acqs {
			if !a.Acquired {
				continue
			}
			for _, b := range run.Acqs[i+1:] {
				if !b.Acquired || b.Name != a.Name {
					continue
				}
				first, second := a, b
				if b.RetOrd < a.RetOrd {
					first, second = b, a
				}
				firstEnd := int64(1) << 62
				if first.Done {
					firstEnd = first.DoneUs
				}
				if first.Released && first.RelUs < firstEnd {
					firstEnd = first.RelUs
				}
				if second.RetUs >= firstEnd {
					continue // the first one was done (or had been released by its holder) when the second was granted
				}
				// both live at second.RetUs
				excused := false
				if first.Ambig || second.Ambig {
					excused = true
				} else if _, lost := lostFor(first, second.RetUs); lost {
					excused = true
				} else if _, lost := lostFor(second, second.RetUs); lost {
					// "first" and "second" are the order in which the calls returned. Replies that arrive at one virtual
					// instant are handed to their callers in either order: the call that returned second may have been
					// served first by the server, have lost its key to another client's DEL and seen it taken by the
					// other call, all at that instant (SET v1, DEL, SET v2 at 1000 us; the calls return v2, v1). Its value
					// was in a majority once (a value that never was has no loss) and is not any more: clause 2 times it.
					excused = true
				}
				for _, at := range eventAt("kill", first.Locker) {
					if at <= second.RetUs {
						excused = true // partition: the first holder may not have heard of its loss yet
					}
				}
				if !excused {
					c.Fail(rt, "C34.mutual-exclusion", fmt.Sprintf("two live holders of %q at %d us: %s and %s; neither had lost its majority", a.Name, second.RetUs, describe(first), describe(second)), plan)
				}
				cls["overlap-after-loss"] = true
			}
		}
	}
	lockerOfVal := map[string]int{}
	for _, s := range run.Scripts {
		if s.Kind == "set" {
			lockerOfVal[s.Val] = s.Locker
		}
	}
	// notGranted: no call of the locker on the name returned a lock at an instant at which the value took a key (try()
	// returns at the instant of the reply for the last key it needs): the attempt with that value was given up.
	notGranted := func(val string, locker int, name string) bool {
		for _, s := range run.Scripts {
			if s.Val != val || s.Kind != "set" || !s.OK {
				continue
			}
			for _, b := range run.Acqs {
				if b.Acquired && b.Locker == locker && b.Name == name && b.RetUs == s.AtUs {
					return false
				}
			}
		}
		return true
	}
	// ---- clause 4: waiters are woken up
	parkedDuringEvent := false
	for _, a := range run.Acqs {
		if a.StartOrd == 0 {
			continue
		}
		if a.Kind == "with" && a.Returned && a.ErrKind == "ctx" {
			// Signature of finding C34.noloop-local-waiter-stranded: NoLoopTracking, KeyMajority >= 2 and a failed
			// attempt of the SAME locker that had taken at least one key of the name and deleted it again while this
			// call was waiting. With NOLOOP the server sends no invalidation for a key deleted by the locker's own
			// connection (and forgets that the connection tracked it), and only a successful lock's release signals
			// the local waiters: a waiter that lost against that short-lived key is never woken again.
			stranded := false
			if plan.Lockers[a.Locker].NoLoop && plan.Majority >= 2 {
				took := map[string]bool{}
				lostTo := map[string]bool{} // values of attempts of the same locker that refused a SET of the locker during the call
				for _, s := range run.Scripts {
					if s.Locker != a.Locker || s.Name != a.Name || s.Ord < a.StartOrd || s.Ord > a.RetOrd {
						continue
					}
					if s.Kind == "set" && s.OK {
						took[s.Val] = true
					}
					if s.Kind == "set" && !s.OK && s.HadPrev {
						if l, known := lockerOfVal[s.Prev]; known && l == a.Locker {
							lostTo[s.Prev] = true
						}
					}
					if s.Kind == "delkey" && s.OK && took[s.Val] {
						if l := truth[s.Val]; l == nil || l.MajAt < 0 {
							stranded = true
						}
					}
					// the same with an attempt that began before this call, or that had its majority on the server and was
					// given up all the same (replies later than TryNextAfter): the call lost against one of its keys, which
					// the attempt then deleted without having been granted
					if s.Kind == "delkey" && s.OK && lostTo[s.Val] && notGranted(s.Val, a.Locker, a.Name) {
						stranded = true
					}
				}
			}
			if stranded && c.c.Known("C34.noloop-local-waiter-stranded") {
				cls["noloop-local-waiter-stranded"] = true
				continue
			}
			// Signature of finding C34.noloop-timeout-waiter-stranded: an attempt of this call failed because scripts took
			// longer than TryNextAfter (not because somebody holds the lock), and nothing the attempt did can come back to
			// the locker as an invalidation. After a failed attempt WithContext only waits for an invalidation (or a local
			// release); if the lock is free, or becomes free unseen, nobody else will ever touch its keys. Two ways:
			// with NOLOOP the attempt's own clean-up deletions are silent;
			// without NOLOOP when none of the locker's scripts changed a key at all: the first use of a script is
			// EVALSHA -> NOSCRIPT -> EVAL, and when the NOSCRIPT answer arrives after the deadline of the key the EVAL is
			// never sent, so no key is set, the clean-up deletes nothing, and the lock of another locker that was never met
			// is released without this connection tracking its keys (TryNextAfter 5 ms, the first scripts for keys 0 and 1
			// take 7 ms: 2 failures, no SET executed, WithContext returns its deadline 2 s later with the lock free).
			// (Observed as: a slowed script on the locker's only connection during the call - it also delays the scripts
			// queued behind it - and the locker's last attempt on the name met no key held by another locker.)
			// evidence over the locker's scripts on the name from the call up to (maxOrd, maxUs)
			strandedBy := func(maxOrd, maxUs int64) bool {
				// the last attempt of this locker on the name before everything went quiet: did it meet a foreign value?
				slowed, lastVal, contended := false, "", false
				changed := false // a script of this locker changed a key of the name during the call
				for _, s := range run.Scripts {
					if s.Locker != a.Locker || s.Name != a.Name || s.Ord < a.StartOrd || s.Ord > maxOrd {
						continue
					}
					if (s.Kind == "set" || s.Kind == "delkey") && s.OK {
						changed = true
					}
					if s.Kind == "set" {
						if s.Val != lastVal {
							lastVal, contended = s.Val, false
						}
						if !s.OK {
							if l, known := lockerOfVal[s.Prev]; !known || l != a.Locker {
								contended = true // (a key briefly held by a timed-out sibling attempt of the same locker does not count)
							}
						}
					}
				}
				for _, h := range run.SlowHits {
					if h.Locker == a.Locker && h.AtUs >= a.StartUs && h.AtUs <= maxUs {
						slowed = true
					}
				}
				// Scripts also outlast TryNextAfter without the plan's help, queued behind those of sibling calls on the
				// locker's only connection (3 waiters x EVALSHA, NOSCRIPT, EVAL at 1 ms each against TryNextAfter 5 ms). The
				// evidence is an attempt of the locker during the call that got every key it asked for (no SET refused) and
				// yet was cleaned up by its owner without having been granted (no call of the locker on the name returned a
				// lock at an instant at which the value took a key): only errors can have failed it, and with the
				// connection alive the only error is the timeout.
				if plan.Lockers[a.Locker].NoLoop && len(eventAt("kill", a.Locker)) == 0 {
					type att struct {
						sets           int
						refused, delOK bool
					}
					atts := map[string]*att{}
					for _, s := range run.Scripts {
						if s.Locker != a.Locker || s.Name != a.Name || s.Ord < a.StartOrd || s.Ord > maxOrd {
							continue
						}
						t := atts[s.Val]
						if t == nil {
							t = &att{}
							atts[s.Val] = t
						}
						switch {
						case s.Kind == "set" && s.OK:
							t.sets++
						case s.Kind == "set":
							t.refused = true
						case s.Kind == "delkey" && s.OK:
							t.delOK = true
						}
					}
					for v, t := range atts {
						if t.sets == 0 || t.refused || !t.delOK {
							continue
						}
						if notGranted(v, a.Locker, a.Name) {
							slowed = true
						}
					}
				}
				return slowed && !contended && (plan.Lockers[a.Locker].NoLoop || !changed)
			}
			timedOut := strandedBy(a.RetOrd, a.RetUs)
			if !timedOut {
				// The waiter sat out most of its wait without the locker running a single script for the name (a parked
				// waiter that is never woken makes no attempt) and was woken in the end, by the release of a sibling call
				// that started after the others had run into their deadlines, too late for its own: what stranded it is judged
				// by what happened before that silence.
				lastOrd, lastUs := a.StartOrd, a.StartUs
				gapOrd, gapFrom, gapLen := int64(0), int64(0), int64(0)
				for _, s := range run.Scripts {
					if s.Locker != a.Locker || s.Name != a.Name || s.Ord < a.StartOrd || s.Ord > a.RetOrd {
						continue
					}
					if s.AtUs-lastUs > gapLen {
						gapOrd, gapFrom, gapLen = lastOrd, lastUs, s.AtUs-lastUs
					}
					lastOrd, lastUs = s.Ord, s.AtUs
				}
				if gapLen > (a.RetUs-a.StartUs)/2 && gapOrd > a.StartOrd {
					timedOut = strandedBy(gapOrd, gapFrom)
				}
			}
			if timedOut && c.c.Known("C34.noloop-timeout-waiter-stranded") {
				cls["noloop-timeout-waiter-stranded"] = true
				continue
			}
			c.Fail(rt, "C34.waiter-wakeup", fmt.Sprintf("%s gave up after %d ms: every holder had released or lost the lock long before, the wake-up was missed", describe(a), (a.RetUs-a.StartUs)/1000), plan)
		}
		if a.Returned && a.ErrKind == "other" {
			closed := len(eventAt("close", a.Locker)) > 0 || len(eventAt("kill", a.Locker)) > 0
			if !closed {
				c.Fail(rt, "C34.unexpected-error", fmt.Sprintf("%s failed with %q on a healthy connection", describe(a), a.Err), plan)
			}
		}
		if a.Returned && a.ErrKind == "closed" && len(eventAt("close", a.Locker)) == 0 {
			c.Fail(rt, "C34.unexpected-error", fmt.Sprintf("%s returned ErrLockerClosed but the locker was not closed", describe(a)), plan)
		}
		if a.Kind == "with" && a.RetUs-a.StartUs > 0 {
			cls["waited"] = true
			for i, e := range plan.Events {
				if (e.Kind == "del-one" || e.Kind == "del-all" || e.Kind == "flushall" || e.Kind == "pexpire") && (e.Name == a.Name || e.Kind == "flushall") && run.ExtAt[i] > a.StartUs && run.ExtAt[i] < a.RetUs {
					parkedDuringEvent = true
				}
			}
			for _, sb := range run.Sabs {
				if sb.Name == a.Name && sb.AtUs > a.StartUs && sb.AtUs < a.RetUs {
					parkedDuringEvent = true
				}
			}
			for _, b := range run.Acqs {
				if b.Kind == "force" && b.Name == a.Name && b.Returned && b.RetUs > a.StartUs && b.RetUs < a.RetUs {
					parkedDuringEvent = true
				}
			}
		}
	}
	// ---- non-triviality
	maxLockers := 0
	for _, a := range run.Acqs {
		if a.StartOrd == 0 {
			continue
		}
		ls := map[int]bool{}
		for _, b := range run.Acqs {
			if b.StartOrd == 0 || b.Name != a.Name {
				continue
			}
			bEnd := b.RetUs
			if b.Released {
				bEnd = b.RelUs
			}
			if b.StartUs <= a.StartUs && bEnd >= a.StartUs {
				ls[b.Locker] = true
			}
		}
		if len(ls) > maxLockers {
			maxLockers = len(ls)
		}
	}
	if parkedDuringEvent {
		cls["deletion-or-takeover-while-waiter-parked"] = true
	}
	if maxLockers >= 3 {
		cls["lockers-contending>=3"] = true
	}
	if anyForce {
		cls["force"] = true
	}
	cls[fmt.Sprintf("majority-%d", plan.Majority)] = true
	if strings.Contains(plan.prefix(), ":") {
		cls["prefix-with-colon"] = true
	}
	for _, n := range plan.Names {
		if strings.ContainsAny(n, ":{") {
			cls["name-with-colon-or-brace"] = true
		}
	}
	if len(plan.Slow) > 0 {
		cls["slow-key-scripts"] = true
	}
	if len(run.Sabs) > 0 {
		cls["key-deleted-under-holder"] = true
	}
	for i, e := range plan.Events {
		if e.Kind != "close" || run.ExtAt[i] < 0 || plan.Lockers[e.Locker].CloseLingerMs == 0 {
			continue
		}
		for _, a := range run.Acqs {
			if a.Acquired && a.Locker == e.Locker && a.RetUs <= run.ExtAt[i] && (!a.Done || a.DoneUs >= run.ExtAt[i]) && (!a.Released || a.RelUs >= run.ExtAt[i]) {
				cls["lingering-close-under-live-holder"] = true
				if plan.Majority >= 2 {
					cls["lingering-close-under-live-holder-majority>=2"] = true
				}
			}
		}
	}
	for _, e := range plan.Events {
		cls["event-"+e.Kind] = true
	}
	shared := map[string]int{}
	for _, a := range plan.Actors {
		for _, op := range a.Ops {
			shared[fmt.Sprintf("%d/%s", a.Locker, op.Name)]++
		}
	}
	for _, n := range shared {
		if n > 1 {
			cls["same-locker-contention"] = true
		}
	}
	for k := range cls {
		classes = append(classes, k)
	}
	sort.Strings(classes)
	return parkedDuringEvent || maxLockers >= 3, classes
}

func genC34Plan(rt *rapid.T) c34Plan {
	p := c34Plan{
		Majority:   rapid.SampledFrom([]int{1, 1, 2, 2, 3}).Draw(rt, "majority"),
		ValidityMs: rapid.SampledFrom([]int{200, 400, 1000, 2000}).Draw(rt, "validity"),
		TryNextMs:  rapid.SampledFrom([]int{5, 20}).Draw(rt, "tryNext"),
		// never 0: a waiter that takes a free minority key, fails on the next one and releases the first wakes itself up
		// through its own invalidation; without server latency that loop would spin at one virtual instant for ever
		LatUs: rapid.SliceOfN(rapid.SampledFrom([]int{100, 300, 300, 1000}), 1, 4).Draw(rt, "lat"),
	}
	nl := rapid.IntRange(2, 4).Draw(rt, "lockers")
	for i := 0; i < nl; i++ {
		p.Lockers = append(p.Lockers, c34Locker{NoLoop: rapid.Bool().Draw(rt, "noloop"), SetPX: rapid.IntRange(0, 3).Draw(rt, "setpx") == 0})
	}
	p.Prefix = rapid.SampledFrom([]string{"", "p", "app:locks", "a:b:c", "lock-s.v1/x{y}"}).Draw(rt, "prefix")
	allNames := []string{"a", "b", "job:42", "{t}:x", "a:b:c"}
	first := rapid.IntRange(0, len(allNames)-1).Draw(rt, "name0")
	names := []string{allNames[first]}
	if rapid.Bool().Draw(rt, "twoNames") {
		names = append(names, allNames[(first+1+rapid.IntRange(0, len(allNames)-2).Draw(rt, "name1"))%len(allNames)])
	}
	p.Names = names
	na := rapid.IntRange(2, 6).Draw(rt, "actors")
	force := rapid.IntRange(0, 5).Draw(rt, "anyForce") == 0
	holds := []int{0, 1, 5, 20, 60, p.ValidityMs/2 + 10, p.ValidityMs + 30}
	holdSum := 0
	for i := 0; i < na; i++ {
		a := c34Actor{Locker: rapid.IntRange(0, nl-1).Draw(rt, "actorLocker")}
		if i < nl {
			a.Locker = i // every locker has an actor; further actors share lockers
		}
		no := rapid.IntRange(1, 3).Draw(rt, "ops")
		for o := 0; o < no; o++ {
			kinds := []string{"with", "with", "with", "try"}
			if force {
				kinds = append(kinds, "force")
			}
			op := c34Op{
				GapMs:  rapid.SampledFrom([]int{0, 0, 1, 3, 10, 40, 150}).Draw(rt, "gap"),
				Kind:   rapid.SampledFrom(kinds).Draw(rt, "kind"),
				Name:   rapid.SampledFrom(names).Draw(rt, "name"),
				HoldMs: rapid.SampledFrom(holds).Draw(rt, "hold"),
			}
			// (not under the longest holds: while a holder keeps its majority with one key free, the waiters of lockers
			// without NOLOOP take that key, fail, release it and wake themselves up again, once per round trip)
			if op.HoldMs >= 60 && op.HoldMs <= 450 && rapid.IntRange(0, 1).Draw(rt, "sabotage") == 0 {
				op.SabAfterMs = rapid.SampledFrom([]int{10, 30}).Draw(rt, "sabAfter")
				op.SabKey = rapid.IntRange(0, p.Majority*2-2).Draw(rt, "sabKey")
			}
			holdSum += op.HoldMs
			a.Ops = append(a.Ops, op)
		}
		p.Actors = append(p.Actors, a)
	}
	// acquire scripts that outlast TryNextAfter: the attempt moves on without that key. A locker has one connection
	// and the server works through it in order, so the delay stays below 2 x TryNextAfter: the script for the next
	// key, sent when the slow one is given up, is then still answered in time.
	extraWait := 0
	if p.Majority >= 2 && rapid.IntRange(0, 2).Draw(rt, "anySlow") != 0 {
		ns := rapid.IntRange(1, 2).Draw(rt, "nSlow")
		for i := 0; i < ns; i++ {
			sl := c34Slow{
				Locker: rapid.IntRange(0, nl-1).Draw(rt, "slowLocker"),
				Name:   rapid.SampledFrom(names).Draw(rt, "slowName"),
				Key:    rapid.IntRange(0, p.Majority*2-2).Draw(rt, "slowKey"),
				LatMs:  p.TryNextMs + p.TryNextMs*2/5,
				Times:  rapid.IntRange(1, 2).Draw(rt, "slowTimes"),
			}
			extraWait += sl.LatMs * sl.Times
			p.Slow = append(p.Slow, sl)
		}
	}
	ne := rapid.IntRange(0, 4).Draw(rt, "events")
	closes := 0
	for i := 0; i < ne; i++ {
		e := c34Event{
			AtMs: rapid.SampledFrom([]int{0, 1, 2, 5, 12, 30, 70, 160, 400}).Draw(rt, "evAt"),
			Kind: rapid.SampledFrom([]string{"del-one", "del-one", "del-all", "del-all", "pexpire", "flushall", "kill", "close", "squat"}).Draw(rt, "evKind"),
		}
		switch e.Kind {
		case "del-one", "pexpire":
			e.Name = rapid.SampledFrom(names).Draw(rt, "evName")
			e.Key = rapid.IntRange(0, p.Majority*2-2).Draw(rt, "evKey")
			if e.Kind == "pexpire" {
				e.Ms = rapid.SampledFrom([]int{1, 7, 30}).Draw(rt, "evMs")
			}
		case "del-all":
			e.Name = rapid.SampledFrom(names).Draw(rt, "evName")
		case "squat":
			// a stale value of a vanished owner on one key; mostly on a key beyond the majority, which an attempt
			// takes in the background after the lock was granted (a stale value on an earlier key blocks the lock)
			e.Name = rapid.SampledFrom(names).Draw(rt, "evName")
			e.Key = rapid.IntRange(0, p.Majority*2-2).Draw(rt, "evKey")
			if p.Majority >= 2 && rapid.IntRange(0, 3).Draw(rt, "squatLate") != 0 {
				e.Key = rapid.IntRange(p.Majority, p.Majority*2-2).Draw(rt, "evKeyLate")
			}
			e.AtMs = rapid.SampledFrom([]int{0, 0, 0, 2, 30}).Draw(rt, "squatAt")
			e.Ms = p.ValidityMs * rapid.IntRange(1, 2).Draw(rt, "squatFor")
			extraWait += e.Ms
		case "kill", "close":
			e.Locker = rapid.IntRange(0, nl-1).Draw(rt, "evLocker")
			closes++
		}
		p.Events = append(p.Events, e)
	}
	// What Locker.Close does to the locks it holds only shows on the server when the client outlives the call: a third
	// of the lockers close their client 10 / 40 ms late. In 1 plan of 4 a locker is closed, lingering, while its first
	// actor is meant to hold a lock (first call without gap, hold >= 60 ms, Close 5 - 30 ms into it; script latency is
	// never 0, so the release scripts of the key monitors take effect one after the other).
	for i := range p.Lockers {
		p.Lockers[i].CloseLingerMs = rapid.SampledFrom([]int{0, 0, 10, 40}).Draw(rt, "closeLinger")
	}
	if rapid.IntRange(0, 3).Draw(rt, "closeUnderHolder") == 0 {
		ai := rapid.IntRange(0, min(nl, na)-1).Draw(rt, "closedActor") // actor i < nl uses locker i
		op := &p.Actors[ai].Ops[0]
		holdSum -= op.HoldMs
		op.GapMs, op.SabAfterMs = 0, 0
		if op.Kind == "force" {
			op.Kind = "with"
		}
		if op.HoldMs < 60 {
			op.HoldMs = 60
		}
		holdSum += op.HoldMs
		if p.Lockers[ai].CloseLingerMs == 0 {
			p.Lockers[ai].CloseLingerMs = 40
		}
		p.Events = append(p.Events, c34Event{AtMs: rapid.SampledFrom([]int{5, 12, 30}).Draw(rt, "closeAt"), Kind: "close", Locker: ai})
		closes++
	}
	// Every hold is bounded, a released lock wakes its waiters at once, and a lock whose owner was closed or
	// disconnected disappears after one validity period at the latest.
	// Stale values expire by themselves, slowed scripts add their delay.
	p.WaitMs = holdSum + (closes+10)*p.ValidityMs + extraWait
	return p
}

// c34ReplayPlans checks every plan stored in $VERIF_ROOT/replays/C34/*.json (a plan, or a violation.json with the plan
// under "case"); see replayPlans.
func c34ReplayPlans(t *testing.T, c *stat.Collector) {
	root := os.Getenv("VERIF_ROOT")
	if root == "" {
		root = "/verif"
	}
	files, _ := filepath.Glob(filepath.Join(root, "replays", "C34", "*.json"))
	sort.Strings(files)
	for _, f := range files {
		b, err := os.ReadFile(f)
		if err != nil {
			t.Fatalf("replay %s: %v", f, err)
		}
		var wrapped struct {
			Case json.RawMessage `json:"case"`
		}
		if json.Unmarshal(b, &wrapped) == nil && len(wrapped.Case) > 0 {
			b = wrapped.Case
		}
		var plan c34Plan
		if err := json.Unmarshal(b, &plan); err != nil {
			t.Fatalf("replay %s: %v", f, err)
		}
		saveCase("c34", plan)
		run := c34Exec(t, plan)
		if run.Res.Frozen {
			c.Inconclusive("virtual-clock-freeze")
			continue
		}
		if run.Unsupp {
			c.Inconclusive("lua-unsupported")
			continue
		}
		c34Check(c, t, plan, run)
	}
}

func TestVerif_C34_Lock(t *testing.T) {
	// see TestVerif_C39_Aside: Go 1.25.0 corrupts the specials list when WaitGroup.Add runs in parallel in a bubble
	defer runtime.GOMAXPROCS(runtime.GOMAXPROCS(1))
	c := stat.For("C34", "locks").Rule("timed plans in a synctest bubble: 2-4 rueidislock lockers (own clients, shared prefix, KeyMajority 1-3, KeyValidity 200-2000 ms, TryNextAfter 5/20 ms, NoLoopTracking and FallbackSETPX on/off) and 2-6 actors (several may share a locker) x 1-3 calls of WithContext / TryWithContext (ForceWithContext in 1 plan of 6) on 1-2 names with hold times 0 .. validity+30 ms, then the cancel function; KeyPrefix from {default, p, app:locks, a:b:c, lock-s.v1/x{y}} and names from {a, b, job:42, {t}:x, a:b:c}; in 2 of 3 plans with majority >= 2 the server takes 1.4 x TryNextAfter for the first 1-2 scripts a locker sends for 1-2 generated keys (the attempt gives the key up and is granted with the others); events at generated instants by another client: DEL of one / all keys of a name, DEL of one key 10/30 ms after a generated call was granted, PEXPIRE 1-30 ms, FLUSHALL, a stale value (SET NX PX 1-2 validity) on one key; connection kill of a locker, Locker.Close (a third of the lockers get their client through ClientBuilder with Close taking effect 10/40 ms late, so that what Close does to held locks reaches the server; in 1 plan of 4 such a locker is closed 5-30 ms into a hold of >= 60 ms); script latency 0.1-1 ms; observed: lock contexts (watcher goroutines), every lock script executed by the server with the liveness of all lock contexts at that instant, the key values from the server log; oracle: (5) a granted lock's value was in >= majority keys, (3) a holder's context is done when the server executes a release script that takes its value below the majority, (2) a context is done within 5 ms after its value left the majority (connection not killed), (1) without Force no two holders are live unless one of them had lost its majority (replies of one virtual instant are handed over in either order), (4) no WithContext waits until its deadline of all hold times + 10 validity periods, nothing hangs; non-trivial = an external deletion/expiry/flush or a forced takeover while a WithContext call on that name was waiting, or >= 3 lockers contending for one name at one instant")
	defer c.Flush()
	// VERIF_REPLAY_JSON=<plan.json | violation.json>: run one recorded plan C34_REPLAY_N times (default 1). The outcome
	// of a plan depends on the goroutine schedule inside the bubble, so a rapid fail file of a rarely failing plan may
	// not reproduce (rapid then even stores the bit stream of another plan); the plan itself is in "case".
	if p := os.Getenv("VERIF_REPLAY_JSON"); p != "" {
		b, err := os.ReadFile(p)
		if err != nil {
			t.Fatal(err)
		}
		var wrapped struct {
			Case json.RawMessage `json:"case"`
		}
		if json.Unmarshal(b, &wrapped) == nil && len(wrapped.Case) > 0 {
			b = wrapped.Case
		}
		var plan c34Plan
		if err := json.Unmarshal(b, &plan); err != nil {
			t.Fatal(err)
		}
		n, _ := strconv.Atoi(os.Getenv("C34_REPLAY_N"))
		for i := 0; i < max(n, 1); i++ {
			t.Run(fmt.Sprintf("replay-%d", i), func(t *testing.T) {
				run := c34Exec(t, plan)
				if run.Res.Frozen || run.Unsupp {
					t.Skip("inconclusive")
				}
				_, classes := c34Check(c, t, plan, run)
				t.Log(classes)
			})
		}
		return
	}
	// regression tier: the shrunk plans of the defects this check found (repaired since) run first, without the generator
	c34ReplayPlans(t, c)
	rapid.Check(t, func(rt *rapid.T) {
		plan := genC34Plan(rt)
		saveCase("c34", plan)
		run := c34Exec(t, plan)
		if run.Res.Frozen {
			if d := os.Getenv("C34_DEBUG"); d != "" {
				b, _ := json.Marshal(plan)
				os.WriteFile(d+"/c34-frozen.txt", []byte(string(b)+"\n"+run.Res.Msg+"\n"+run.Res.Goroutines), 0o644)
			}
			c.Inconclusive("virtual-clock-freeze")
			return
		}
		if run.Unsupp {
			c.Inconclusive("lua-unsupported")
			return
		}
		nt, classes := c34Check(c, rt, plan, run)
		key, _ := json.Marshal(plan)
		c.Eval(nt, string(key), classes...)
		c.Sample(nt, func() any { return plan })
	})
}
