package props

// C25 "Dedicated clients are isolated and single-use": dedicated sessions (Dedicated(fn) or
// Dedicate()+release/Close) run WATCH/GET/MULTI/SET/EXEC, Pub/Sub and tracking steps with
// generated pauses while other callers use the shared pipeline and the blocking pool. The oracle
// reads the per-connection server log (a session's commands form one contiguous block on its
// connection), replays a reference model of keys/WATCH/MULTI over the log to judge every reply,
// checks that a released handle is inert and inspects the fake's session state whenever the
// pooled connection is handed out again.

import (
	"context"
	"encoding/json"
	"errors"
	"fmt"
	"os"
	"sort"
	"strconv"
	"strings"
	"sync"
	"testing"
	"time"

	"github.com/redis/rueidis"
	"pgregory.net/rapid"
	"verif/harness/sim"
	"verifkit/bubble"
	"verifkit/fakeredis"
	"verifkit/resp"
	"verifkit/stat"
)

type c25Step struct {
	PauseUs int    `json:"pause_us,omitempty"`
	Kind    string `json:"kind"` // mark watch get tx txmulti sub psub ssub receive track
	Key     string `json:"key,omitempty"`
	Val     string `json:"val,omitempty"`
	Chan    string `json:"chan,omitempty"`
	Queue   bool   `json:"queue,omitempty"`   // issue the step's commands with a cancellable context: the connection goes to its pipelined mode
	RecvUs  int    `json:"recv_us,omitempty"` // receive: deadline of the Receive call
}

type c25After struct {
	PauseUs int    `json:"pause_us,omitempty"`
	Kind    string `json:"kind"` // do domulti receive hooks oninval close release
}

// c25Race: the session's last call is a retryable (read-only) command that the server answers with -LOADING for its
// first Loading attempts, so the call sits in the client's retry back-off (RetryDelay) between attempts; it runs in its
// own goroutine while the session's goroutine releases / closes the handle ReleaseAfterUs after the call started.
type c25Race struct {
	Kind           string `json:"kind"`    // do | domulti
	Loading        int    `json:"loading"` // attempts answered -LOADING
	ReleaseAfterUs int    `json:"release_after_us"`
}

type c25Session struct {
	Race    *c25Race   `json:"race,omitempty"`
	StartUs int        `json:"start_us"`
	Via     string     `json:"via"` // dedicated | dedicate
	Steps   []c25Step  `json:"steps"`
	Abandon string     `json:"abandon,omitempty"` // "" | multi (MULTI + SET left open) | watch (WATCH without EXEC)
	End     string     `json:"end"`               // release | close | close-close
	After   []c25After `json:"after,omitempty"`
}

type c25Traffic struct {
	AtUs  int    `json:"at_us"`
	Kind  string `json:"kind"` // do multi block
	N     int    `json:"n"`
	LatUs int    `json:"lat_us,omitempty"`
}

type c25Ext struct {
	AtUs int    `json:"at_us"`
	Kind string `json:"kind"` // set publish
	Key  string `json:"key"`
	Val  string `json:"val"`
}

type c25Plan struct {
	RetryDelayUs int          `json:"retry_delay_us,omitempty"` // RetryDelay returns this for the first 8 attempts, then gives up
	PoolSize     int          `json:"pool_size"`
	DisableCache bool         `json:"disable_cache"`
	Sessions     []c25Session `json:"sessions"`
	Traffic      []c25Traffic `json:"traffic,omitempty"`
	Ext          []c25Ext     `json:"ext,omitempty"`
}

// ---- what a session sends

type c25Cmd struct {
	Argv  []string
	Step  int    // index of the step (len(Steps) for the abandon tail)
	Batch int    // commands with the same non-zero Batch go out in one DoMulti
	Role  string // mark watch get multi set exec sub track-on
}

func c25Tag(si int) string { return "s" + strconv.Itoa(si) }

func c25MarkReply(si, k int) resp.Value { return resp.Bulk(fmt.Sprintf("mark-%d-%d", si, k)) }

// c25SessionCmds lists the commands of a session in issue order.
func c25SessionCmds(si int, s c25Session) (out []c25Cmd) {
	batch := 0
	for k, st := range s.Steps {
		switch st.Kind {
		case "mark":
			out = append(out, c25Cmd{Argv: []string{"VREPLY", fmt.Sprintf("%s-m%d", c25Tag(si), k), string(resp.Append(nil, c25MarkReply(si, k))), "0"}, Step: k, Role: "mark"})
		case "watch":
			out = append(out, c25Cmd{Argv: []string{"WATCH", st.Key}, Step: k, Role: "watch"})
		case "get":
			out = append(out, c25Cmd{Argv: []string{"GET", st.Key}, Step: k, Role: "get"})
		case "tx", "txmulti":
			b := 0
			if st.Kind == "txmulti" {
				batch++
				b = batch
			}
			out = append(out, c25Cmd{Argv: []string{"MULTI"}, Step: k, Batch: b, Role: "multi"},
				c25Cmd{Argv: []string{"SET", st.Key, st.Val}, Step: k, Batch: b, Role: "set"},
				c25Cmd{Argv: []string{"EXEC"}, Step: k, Batch: b, Role: "exec"})
		case "sub":
			out = append(out, c25Cmd{Argv: []string{"SUBSCRIBE", st.Chan}, Step: k, Role: "sub"})
		case "psub":
			out = append(out, c25Cmd{Argv: []string{"PSUBSCRIBE", st.Chan}, Step: k, Role: "sub"})
		case "ssub":
			out = append(out, c25Cmd{Argv: []string{"SSUBSCRIBE", st.Chan}, Step: k, Role: "sub"})
		case "receive":
			out = append(out, c25Cmd{Argv: []string{"SUBSCRIBE", st.Chan}, Step: k, Role: "sub"})
		case "track":
			out = append(out, c25Cmd{Argv: []string{"CLIENT", "TRACKING", "ON"}, Step: k, Role: "track-on"},
				c25Cmd{Argv: []string{"GET", st.Key}, Step: k, Role: "get"})
		}
	}
	n := len(s.Steps)
	switch s.Abandon {
	case "multi":
		out = append(out, c25Cmd{Argv: []string{"MULTI"}, Step: n, Role: "multi"}, c25Cmd{Argv: []string{"SET", c25Tag(si) + ":k0", "abandoned"}, Step: n, Role: "set"})
	case "watch":
		out = append(out, c25Cmd{Argv: []string{"WATCH", c25Tag(si) + ":k0"}, Step: n, Role: "watch"})
	}
	return
}

func c25RaceReply(si, k int) resp.Value { return resp.Bulk(fmt.Sprintf("race-%d-%d", si, k)) }

// c25RaceCmds lists the command(s) of the session's racing call; the first one is answered -LOADING Race.Loading times.
func c25RaceCmds(si int, s c25Session) (out [][]string) {
	if s.Race == nil {
		return nil
	}
	out = append(out, []string{"VREPLY", c25Tag(si) + "-race", string(resp.Append(nil, c25RaceReply(si, 0))), "0"})
	if s.Race.Kind == "domulti" {
		out = append(out, []string{"VREPLY", c25Tag(si) + "-race-b", string(resp.Append(nil, c25RaceReply(si, 1))), "0"})
	}
	return
}

// pipelined reports whether the session pushes its connection into the pipelined (background) mode.
func (s c25Session) pipelined() bool {
	for _, st := range s.Steps {
		switch st.Kind {
		case "sub", "psub", "ssub", "receive", "track":
			return true
		}
		if st.Queue {
			return true
		}
	}
	return false
}

// leavesTx tells what transaction state the session leaves on its connection: "multi" (an open MULTI), "watch"
// (WATCHed keys without a later EXEC) or "".
func (s c25Session) leavesTx() string {
	watched := false
	for _, st := range s.Steps {
		switch st.Kind {
		case "watch":
			watched = true
		case "tx", "txmulti":
			watched = false
		}
	}
	switch {
	case s.Abandon == "multi":
		return "multi"
	case s.Abandon == "watch" || watched:
		return "watch"
	}
	return ""
}

// tracks reports whether the session enables invalidation tracking (SetOnInvalidations + CLIENT TRACKING ON) and
// whether it calls SetPubSubHooks afterwards (the runner installs its Pub/Sub hooks at the first subscribe step).
func (s c25Session) tracks() (tracks, hooksAfterTrack bool) {
	hooksSet := false
	for _, st := range s.Steps {
		switch st.Kind {
		case "track":
			tracks = true
		case "sub", "psub", "ssub":
			if !hooksSet && tracks {
				hooksAfterTrack = true
			}
			hooksSet = true
		}
	}
	return
}

// ---- observations

type c25Msg struct {
	AtUs int64
	Chan string
	Msg  string
}

type c25AfterObs struct {
	Kind string
	AtUs int64
	Errs []error
	Done bool
}

type c25SessObs struct {
	Results      []rueidis.RedisResult // aligned with c25SessionCmds
	Issued       int                   // how many commands were issued
	RecvErrs     map[int]error         // step -> Receive error
	StartUs      int64
	AcquiredUs   int64
	ReleaseUs    int64 // when the release / Close call started
	ReleasedUs   int64 // when it returned
	Msgs         []c25Msg
	RecvMsgs     []c25Msg
	Invalidation []int64
	HookChans    int
	ChansClosed  int
	After        []c25AfterObs
	Done         bool
	RaceStartUs  int64
	RaceEndUs    int64
	RaceResults  []rueidis.RedisResult
	RaceDone     bool
}

type c25TrafficObs struct {
	StartUs, EndUs int64
	Results        []rueidis.RedisResult
	Done           bool
}

type c25Snap struct {
	Conn, Req int
	State     fakeredis.ConnState
}

type c25Run struct {
	Res         bubble.Result
	Sess        []*c25SessObs
	Traffic     []*c25TrafficObs
	Events      []fakeredis.Event
	Snaps       map[[2]int]fakeredis.ConnState
	ClientClose map[int]int64
	NPipeline   int
	CloseUs     int64
	CloseOK     bool
	Pending     []string
	NewErr      string
}

func c25TrafficUID(ti, k int, kind string) string {
	p := "t"
	if kind == "block" {
		p = "b"
	}
	return fmt.Sprintf("%s%d-%d", p, ti, k)
}

func c25TrafficReply(ti, k int) resp.Value { return resp.Bulk(fmt.Sprintf("traffic-%d-%d", ti, k)) }

func c25RunPlan(t *testing.T, plan c25Plan) (run c25Run) {
	var mu sync.Mutex
	for range plan.Sessions {
		run.Sess = append(run.Sess, &c25SessObs{RecvErrs: map[int]error{}})
	}
	for range plan.Traffic {
		run.Traffic = append(run.Traffic, &c25TrafficObs{})
	}
	run.Snaps = map[[2]int]fakeredis.ConnState{}
	run.Res = bubble.Run(t, func() {
		w := fakeredis.NewWorld()
		srv := w.NewServer("127.0.0.1:6379")
		srv.Hooks.Latency = func(c *fakeredis.Conn, req int, argv []string) time.Duration {
			if c.BurstIdx == 0 && len(argv) > 3 && argv[0] == "VREPLY" {
				n, _ := strconv.Atoi(argv[3])
				return time.Duration(n) * time.Microsecond
			}
			return 0
		}
		raceArrivals := map[int]int{}
		srv.Hooks.Fault = func(c *fakeredis.Conn, req int, argv []string) fakeredis.Fault {
			st := c.Snapshot() // the state the command finds
			mu.Lock()
			run.Snaps[[2]int{c.ID, req}] = st
			loading := false
			if len(argv) > 1 && argv[0] == "VREPLY" && strings.HasSuffix(argv[1], "-race") {
				if si := c25SessionOf(argv, len(plan.Sessions)); si >= 0 && plan.Sessions[si].Race != nil {
					loading = raceArrivals[si] < plan.Sessions[si].Race.Loading
					raceArrivals[si]++
				}
			}
			mu.Unlock()
			if loading {
				return fakeredis.Fault{Kind: fakeredis.ErrorReply, Err: "LOADING Redis is loading the dataset in memory"}
			}
			return fakeredis.Fault{}
		}
		opt := sim.Option(w, "127.0.0.1:6379")
		tracker := &c29Tracker{w: w, srv: srv, CloseUs: map[int]int64{}}
		opt.DialCtxFn = tracker.dial
		opt.ForceSingleClient = true
		// retries are on: only read-only commands that fail are retried, which in these plans are the racing calls
		opt.RetryDelay = func(attempts int, _ rueidis.Completed, _ error) time.Duration {
			if attempts > 8 {
				return -1
			}
			return time.Duration(plan.RetryDelayUs) * time.Microsecond
		}
		opt.PipelineMultiplex = -1
		opt.BlockingPoolSize = plan.PoolSize
		opt.DisableCache = plan.DisableCache
		if queueLabel() == "ring" {
			opt.WriteBufferEachConn = 1 << 20
		}
		client, err := rueidis.NewClient(opt)
		if err != nil {
			run.NewErr = err.Error()
			w.Stop()
			return
		}
		run.NPipeline = len(srv.Conns())
		var wg sync.WaitGroup
		build := func(b rueidis.Builder, argv []string) rueidis.Completed {
			switch argv[0] {
			case "SUBSCRIBE":
				return b.Subscribe().Channel(argv[1]).Build()
			case "PSUBSCRIBE":
				return b.Psubscribe().Pattern(argv[1]).Build()
			case "SSUBSCRIBE":
				return b.Ssubscribe().Channel(argv[1]).Build()
			case "MULTI":
				return b.Multi().Build()
			case "EXEC":
				return b.Exec().Build()
			case "WATCH":
				return b.Watch().Key(argv[1]).Build()
			case "GET":
				return b.Get().Key(argv[1]).Build()
			case "SET":
				return b.Set().Key(argv[1]).Value(argv[2]).Build()
			}
			return b.Arbitrary(argv[0]).Args(argv[1:]...).Build()
		}
		for si, s := range plan.Sessions {
			wg.Add(1)
			go func(si int, s c25Session) {
				defer wg.Done()
				o := run.Sess[si]
				cmds := c25SessionCmds(si, s)
				results := make([]rueidis.RedisResult, len(cmds))
				time.Sleep(time.Duration(s.StartUs) * time.Microsecond)
				var hookChans []<-chan error
				hooksSet := false
				body := func(dc rueidis.DedicatedClient) {
					mu.Lock()
					o.AcquiredUs = w.Since()
					mu.Unlock()
					ci := 0
					issue := func(ctx context.Context, n int) {
						if n == 1 {
							results[ci] = dc.Do(ctx, build(dc.B(), cmds[ci].Argv))
						} else {
							multi := make(rueidis.Commands, n)
							for k := 0; k < n; k++ {
								multi[k] = build(dc.B(), cmds[ci+k].Argv)
							}
							copy(results[ci:ci+n], dc.DoMulti(ctx, multi...))
						}
						ci += n
						mu.Lock()
						o.Issued = ci
						mu.Unlock()
					}
					for k, st := range s.Steps {
						time.Sleep(time.Duration(st.PauseUs) * time.Microsecond)
						ctx := context.Background()
						cancel := func() {}
						if st.Queue {
							ctx, cancel = context.WithCancel(ctx)
						}
						switch st.Kind {
						case "mark", "watch", "get":
							issue(ctx, 1)
						case "tx":
							issue(ctx, 1)
							issue(ctx, 1)
							issue(ctx, 1)
						case "txmulti":
							issue(ctx, 3)
						case "sub", "psub", "ssub":
							if !hooksSet {
								hooksSet = true
								hookChans = append(hookChans, dc.SetPubSubHooks(rueidis.PubSubHooks{OnMessage: func(m rueidis.PubSubMessage) {
									mu.Lock()
									o.Msgs = append(o.Msgs, c25Msg{AtUs: w.Since(), Chan: m.Channel, Msg: m.Message})
									mu.Unlock()
								}}))
							}
							issue(ctx, 1)
						case "receive":
							rctx, rcancel := context.WithTimeout(context.Background(), time.Duration(st.RecvUs)*time.Microsecond)
							err := dc.Receive(rctx, build(dc.B(), cmds[ci].Argv), func(m rueidis.PubSubMessage) {
								mu.Lock()
								o.RecvMsgs = append(o.RecvMsgs, c25Msg{AtUs: w.Since(), Chan: m.Channel, Msg: m.Message})
								mu.Unlock()
							})
							rcancel()
							ci++
							mu.Lock()
							o.RecvErrs[k] = err
							o.Issued = ci
							mu.Unlock()
						case "track":
							hookChans = append(hookChans, dc.SetOnInvalidations(func(ms []rueidis.RedisMessage) {
								mu.Lock()
								o.Invalidation = append(o.Invalidation, w.Since())
								mu.Unlock()
							}))
							issue(ctx, 1)
							issue(ctx, 1)
						}
						cancel()
					}
					switch s.Abandon {
					case "multi":
						issue(context.Background(), 1)
						issue(context.Background(), 1)
					case "watch":
						issue(context.Background(), 1)
					}
					if s.Race != nil {
						rcmds := c25RaceCmds(si, s)
						wg.Add(1)
						go func() {
							defer wg.Done()
							ctx := context.Background()
							start := w.Since()
							var rs []rueidis.RedisResult
							mkro := func(a []string) rueidis.Completed { return dc.B().Arbitrary(a[0]).Args(a[1:]...).ReadOnly() }
							if len(rcmds) == 1 {
								rs = []rueidis.RedisResult{dc.Do(ctx, mkro(rcmds[0]))}
							} else {
								rs = dc.DoMulti(ctx, mkro(rcmds[0]), mkro(rcmds[1]))
							}
							mu.Lock()
							o.RaceStartUs, o.RaceEndUs, o.RaceResults, o.RaceDone = start, w.Since(), rs, true
							mu.Unlock()
						}()
						// the session's goroutine goes on to release / close the handle while that call is under way
						time.Sleep(time.Duration(s.Race.ReleaseAfterUs) * time.Microsecond)
					}
				}
				mu.Lock()
				o.StartUs = w.Since()
				mu.Unlock()
				var handle rueidis.DedicatedClient
				var cancel func()
				end := func(dc rueidis.DedicatedClient) {
					switch s.End {
					case "close":
						dc.Close()
					case "close-close":
						dc.Close()
						dc.Close()
					}
				}
				if s.Via == "dedicated" {
					_ = client.Dedicated(func(dc rueidis.DedicatedClient) error {
						handle = dc
						body(dc)
						mu.Lock()
						o.ReleaseUs = w.Since()
						mu.Unlock()
						end(dc)
						return nil
					})
				} else {
					handle, cancel = client.Dedicate()
					body(handle)
					mu.Lock()
					o.ReleaseUs = w.Since()
					mu.Unlock()
					if s.End == "release" {
						cancel()
					} else {
						end(handle)
					}
				}
				released := w.Since()
				time.Sleep(time.Microsecond) // a channel may be closed by the connection's own goroutine a moment after Close returns
				closed := 0
				for _, ch := range hookChans {
					if ch == nil {
						closed++
						continue
					}
				drain:
					for i := 0; i < 3; i++ {
						select {
						case _, ok := <-ch:
							if !ok {
								closed++
								break drain
							}
						default:
							break drain
						}
					}
				}
				mu.Lock()
				o.Results = results
				o.ReleasedUs = released
				o.HookChans, o.ChansClosed = len(hookChans), closed
				mu.Unlock()
				// use after release
				for ai, a := range s.After {
					time.Sleep(time.Duration(a.PauseUs) * time.Microsecond)
					ao := c25AfterObs{Kind: a.Kind, AtUs: w.Since()}
					ctx := context.Background()
					uid := func(k int) []string {
						return []string{"VREPLY", fmt.Sprintf("%s-after%d-%d", c25Tag(si), ai, k), "+late\r\n", "0"}
					}
					switch a.Kind {
					case "do":
						ao.Errs = []error{handle.Do(ctx, build(handle.B(), uid(0))).Error()}
					case "domulti":
						for _, r := range handle.DoMulti(ctx, build(handle.B(), uid(0)), build(handle.B(), uid(1))) {
							ao.Errs = append(ao.Errs, r.Error())
						}
					case "receive":
						rctx, rcancel := context.WithTimeout(ctx, 50*time.Millisecond)
						ao.Errs = []error{handle.Receive(rctx, handle.B().Subscribe().Channel(fmt.Sprintf("%s:after%d", c25Tag(si), ai)).Build(), func(rueidis.PubSubMessage) {})}
						rcancel()
					case "hooks", "oninval":
						var ch <-chan error
						if a.Kind == "hooks" {
							ch = handle.SetPubSubHooks(rueidis.PubSubHooks{OnMessage: func(rueidis.PubSubMessage) {}})
						} else {
							ch = handle.SetOnInvalidations(func([]rueidis.RedisMessage) {})
						}
						if ch == nil {
							ao.Errs = []error{errors.New("c25: nil channel")}
						} else {
							select {
							case e := <-ch:
								ao.Errs = []error{e}
							case <-time.After(50 * time.Millisecond):
								ao.Errs = []error{errors.New("c25: nothing on the channel")}
							}
						}
					case "close":
						handle.Close()
					case "release":
						if cancel != nil {
							cancel()
						}
					}
					ao.Done = true
					mu.Lock()
					o.After = append(o.After, ao)
					mu.Unlock()
				}
				mu.Lock()
				o.Done = true
				mu.Unlock()
			}(si, s)
		}
		for ti, tr := range plan.Traffic {
			wg.Add(1)
			go func(ti int, tr c25Traffic) {
				defer wg.Done()
				time.Sleep(time.Duration(tr.AtUs) * time.Microsecond)
				o := run.Traffic[ti]
				ctx := context.Background()
				mk := func(k int) rueidis.Completed {
					a := client.B().Arbitrary("VREPLY").Args(c25TrafficUID(ti, k, tr.Kind), string(resp.Append(nil, c25TrafficReply(ti, k))), strconv.Itoa(tr.LatUs))
					if tr.Kind == "block" {
						return a.Blocking()
					}
					return a.Build()
				}
				start := w.Since()
				var rs []rueidis.RedisResult
				if tr.N == 1 {
					rs = []rueidis.RedisResult{client.Do(ctx, mk(0))}
				} else {
					multi := make(rueidis.Commands, tr.N)
					for k := range multi {
						multi[k] = mk(k)
					}
					rs = client.DoMulti(ctx, multi...)
				}
				mu.Lock()
				o.StartUs, o.EndUs, o.Results, o.Done = start, w.Since(), rs, true
				mu.Unlock()
			}(ti, tr)
		}
		for _, e := range plan.Ext {
			e := e
			time.AfterFunc(time.Duration(e.AtUs)*time.Microsecond, func() {
				if e.Kind == "set" {
					srv.Do("SET", e.Key, e.Val)
				} else {
					srv.Publish(e.Key, e.Val)
				}
			})
		}
		finished := sim.WaitTimeout(&wg, 10*time.Minute)
		if !finished {
			mu.Lock()
			for si, o := range run.Sess {
				if !o.Done {
					run.Pending = append(run.Pending, fmt.Sprintf("session %d (issued %d commands)", si, o.Issued))
				}
			}
			for ti, o := range run.Traffic {
				if !o.Done {
					run.Pending = append(run.Pending, fmt.Sprintf("traffic %d", ti))
				}
			}
			mu.Unlock()
		}
		run.CloseUs = w.Since()
		run.CloseOK = sim.CallTimeout(time.Minute, client.Close)
		w.Stop()
		run.Events = w.Snapshot()
		time.Sleep(5 * time.Second)
		if !finished {
			sim.WaitTimeout(&wg, time.Minute)
		}
		tracker.mu.Lock()
		run.ClientClose = map[int]int64{}
		for k, v := range tracker.CloseUs {
			run.ClientClose[k] = v
		}
		tracker.mu.Unlock()
	})
	return
}

// ---- generator

func genC25Plan(rt *rapid.T, c *stat.Collector) c25Plan {
	p := c25Plan{PoolSize: rapid.IntRange(1, 3).Draw(rt, "poolSize"), DisableCache: rapid.Bool().Draw(rt, "disableCache")}
	p.RetryDelayUs = rapid.SampledFrom([]int{200, 1000, 3000}).Draw(rt, "retryDelay")
	ns := rapid.IntRange(1, 3).Draw(rt, "sessions")
	for si := 0; si < ns; si++ {
		s := c25Session{StartUs: rapid.SampledFrom([]int{0, 0, 200, 1000, 3000, 6000}).Draw(rt, "start"), Via: rapid.SampledFrom([]string{"dedicated", "dedicate"}).Draw(rt, "via")}
		key := func() string { return fmt.Sprintf("%s:k%d", c25Tag(si), rapid.IntRange(0, 1).Draw(rt, "key")) }
		kinds := []string{"mark", "watch", "watch", "get", "tx", "tx", "txmulti", "sub", "psub", "ssub", "receive"}
		if p.DisableCache {
			kinds = append(kinds, "track", "track")
		}
		n := rapid.IntRange(0, 5).Draw(rt, "steps")
		s.Steps = append(s.Steps, c25Step{Kind: "mark"})
		for k := 0; k < n; k++ {
			st := c25Step{PauseUs: rapid.SampledFrom([]int{0, 0, 100, 500, 2000}).Draw(rt, "pause"), Kind: rapid.SampledFrom(kinds).Draw(rt, "step")}
			switch st.Kind {
			case "watch", "get", "track":
				st.Key = key()
			case "tx", "txmulti":
				st.Key = key()
				st.Val = fmt.Sprintf("%sv%d", c25Tag(si), k)
			case "sub", "ssub", "receive":
				st.Chan = fmt.Sprintf("%s:ch%d", c25Tag(si), rapid.IntRange(0, 1).Draw(rt, "chan"))
			case "psub":
				st.Chan = fmt.Sprintf("%s:ch*", c25Tag(si))
			}
			if st.Kind == "receive" {
				st.RecvUs = rapid.SampledFrom([]int{100, 1000, 3000}).Draw(rt, "recvFor")
			} else if st.Kind != "sub" && st.Kind != "psub" && st.Kind != "ssub" && st.Kind != "track" {
				st.Queue = rapid.IntRange(0, 3).Draw(rt, "queue") == 0
			}
			s.Steps = append(s.Steps, st)
		}
		if s.leavesTx() != "" {
			// every WATCH is followed by a transaction, unless the session is drawn to abandon it below
			s.Steps = append(s.Steps, c25Step{PauseUs: rapid.SampledFrom([]int{0, 100, 2000}).Draw(rt, "closingTxPause"), Kind: rapid.SampledFrom([]string{"tx", "txmulti"}).Draw(rt, "closingTx"), Key: key(), Val: c25Tag(si) + "vlast"})
		}
		s.End = rapid.SampledFrom([]string{"release", "release", "release", "close", "close-close"}).Draw(rt, "end")
		// A session that releases its connection with an open MULTI or a pending WATCH is outside the property (it lists
		// subscriptions, hooks and invalidation tracking as what release removes) and is not generated: on the pinned tree
		// such state leaks to the next holder (its first command is answered QUEUED, or its EXEC aborts), and after an
		// abandoned MULTI on a pipelined connection the clean-up UNSUBSCRIBE makes the reader goroutine panic. Noted in
		// DESIGN.md 10.2 as observations, not findings.
		if rapid.IntRange(0, 2).Draw(rt, "race") == 0 {
			// The racing call's attempts leave at +0, +D, +2D, ... (D = RetryDelay) while the server answers LOADING; the
			// release instant is an odd multiple of D/2, i.e. never the instant of an attempt: inside a back-off, or after
			// the call has got its reply.
			r := &c25Race{Kind: rapid.SampledFrom([]string{"do", "do", "domulti"}).Draw(rt, "raceKind"), Loading: rapid.IntRange(1, 3).Draw(rt, "raceLoading")}
			r.ReleaseAfterUs = (2*rapid.IntRange(0, r.Loading+1).Draw(rt, "raceReleaseHalf") + 1) * p.RetryDelayUs / 2
			s.Race = r
		}
		na := rapid.IntRange(0, 3).Draw(rt, "after")
		for k := 0; k < na; k++ {
			s.After = append(s.After, c25After{PauseUs: rapid.SampledFrom([]int{0, 100, 1500}).Draw(rt, "afterPause"),
				Kind: rapid.SampledFrom([]string{"do", "domulti", "receive", "hooks", "oninval", "close", "release"}).Draw(rt, "afterKind")})
		}
		p.Sessions = append(p.Sessions, s)
	}
	// On a connection that any session has switched to the pipelined mode, the clean-up after an abandoned MULTI makes
	// the client's reader goroutine panic (recorded defect, kills the process): such plans are only generated while
	// that finding is not on record.
	anyPipelined, anyOpenMulti := false, false
	for _, s := range p.Sessions {
		anyPipelined = anyPipelined || s.pipelined()
		anyOpenMulti = anyOpenMulti || (s.Abandon == "multi" && s.End == "release")
	}
	if anyPipelined && anyOpenMulti && c.Known("C25.abandoned-multi-panics") {
		for i := range p.Sessions {
			if p.Sessions[i].Abandon == "multi" {
				p.Sessions[i].Abandon = "watch"
			}
		}
	}
	nt := rapid.IntRange(0, 5).Draw(rt, "traffic")
	for ti := 0; ti < nt; ti++ {
		tr := c25Traffic{AtUs: rapid.IntRange(0, 12000).Draw(rt, "trafficAt"), Kind: rapid.SampledFrom([]string{"do", "multi", "block", "block", "block"}).Draw(rt, "trafficKind"), N: 1}
		if tr.Kind == "multi" {
			tr.N = rapid.IntRange(2, 3).Draw(rt, "trafficN")
		}
		if tr.Kind == "block" {
			tr.LatUs = rapid.SampledFrom([]int{0, 300, 2000, 6000}).Draw(rt, "trafficLat")
		}
		p.Traffic = append(p.Traffic, tr)
	}
	ne := rapid.IntRange(0, 10).Draw(rt, "ext")
	for i := 0; i < ne; i++ {
		si := rapid.IntRange(0, ns-1).Draw(rt, "extSession")
		e := c25Ext{AtUs: rapid.IntRange(0, 9000).Draw(rt, "extAt"), Kind: rapid.SampledFrom([]string{"set", "set", "publish"}).Draw(rt, "extKind")}
		if e.Kind == "set" {
			e.Key, e.Val = fmt.Sprintf("%s:k%d", c25Tag(si), rapid.IntRange(0, 1).Draw(rt, "extKey")), "x"+strconv.Itoa(i)
		} else {
			e.Key, e.Val = fmt.Sprintf("%s:ch%d", c25Tag(si), rapid.IntRange(0, 1).Draw(rt, "extChan")), "p"+strconv.Itoa(i)
		}
		p.Ext = append(p.Ext, e)
	}
	return p
}

// ---- oracle

func c25Cleanup(argv []string) bool {
	switch strings.ToUpper(argv[0]) {
	case "UNSUBSCRIBE", "PUNSUBSCRIBE", "SUNSUBSCRIBE", "PING", "DISCARD":
		return len(argv) == 1
	case "CLIENT":
		return len(argv) == 3 && strings.EqualFold(argv[1], "TRACKING") && strings.EqualFold(argv[2], "OFF")
	}
	return false
}

func c25SessionOf(argv []string, n int) int {
	for _, a := range argv[1:] {
		for si := 0; si < n; si++ {
			t := c25Tag(si)
			if strings.HasPrefix(a, t+"-") || strings.HasPrefix(a, t+":") {
				return si
			}
		}
		break // the tag is in the first argument
	}
	return -1
}

func c25Check(c *stat.Collector, rt stat.Fataler, plan c25Plan, run c25Run) (nt bool, classes []string) {
	class := map[string]bool{}
	defer func() {
		for k := range class {
			classes = append(classes, k)
		}
		sort.Strings(classes)
	}()
	fail := func(clause, detail string) { c.Fail(rt, clause, detail, plan) }
	if run.NewErr != "" {
		fail("C25.harness", "NewClient failed: "+run.NewErr)
	}
	if run.Res.Panic != nil {
		fail("C25.no-panic", run.Res.String())
	}
	ns := len(plan.Sessions)
	// recorded defects that excuse parts of a case
	lateClose := map[int]int64{} // session -> time of a Close call on the already released handle
	for si, s := range plan.Sessions {
		if s.End != "release" {
			continue
		}
		for _, a := range run.Sess[si].After {
			if a.Kind == "close" && a.Done {
				if _, dup := lateClose[si]; !dup {
					lateClose[si] = a.AtUs
				}
			}
		}
	}
	knownLateClose := len(lateClose) > 0 && c.Known("C25.close-after-release")
	anyAbandon := false
	for _, s := range plan.Sessions {
		if s.leavesTx() != "" && s.End == "release" {
			anyAbandon = true
		}
	}
	knownAbandon := anyAbandon && c.Known("C25.abandoned-tx-leaks")
	if len(run.Pending) > 0 || run.Res.Deadlock {
		if knownLateClose || knownAbandon {
			class["excluded-known"] = true
			return false, nil
		}
		fail("C25.no-hang", fmt.Sprintf("calls never returned: %v (%s)", run.Pending, run.Res))
	}
	if run.Res.Leak {
		if knownLateClose || knownAbandon {
			class["excluded-known"] = true
			return false, nil
		}
		fail("C25.no-leak", run.Res.String())
	}
	if !run.CloseOK {
		fail("C25.close-returns", "Client.Close did not return within a virtual minute")
	}

	// ---- the server's view: per connection the received commands
	type rc struct {
		e        fakeredis.Event
		replySeq int64
	}
	perConn := map[int][]*rc{}
	byReq := map[[2]int]*rc{}
	connOpen, connClose := map[int]int64{}, map[int]int64{}
	var connIDs []int
	for _, e := range run.Events {
		switch e.Kind {
		case "open":
			connOpen[e.Conn] = e.At
			connIDs = append(connIDs, e.Conn)
		case "close":
			if _, dup := connClose[e.Conn]; !dup {
				connClose[e.Conn] = e.At
				if cc, ok := run.ClientClose[e.Conn]; ok && cc < e.At {
					connClose[e.Conn] = cc
				}
			}
		case "recv":
			r := &rc{e: e, replySeq: -1}
			perConn[e.Conn] = append(perConn[e.Conn], r)
			byReq[[2]int{e.Conn, e.Req}] = r
			// nothing that was issued through a dedicated handle arrives after that handle's release / Close has returned
			if si := c25SessionOf(e.Argv, ns); si >= 0 && run.Sess[si].Done && e.At > run.Sess[si].ReleasedUs {
				how := "a call on the released handle was not rejected"
				if strings.Contains(e.Argv[1], "-race") {
					how = fmt.Sprintf("the call had started at +%dus, got -LOADING and was waiting in its retry back-off (RetryDelay %dus) when the handle was released; its next attempt must be rejected with ErrDedicatedClientRecycled, not sent on a connection that is back in the pool", run.Sess[si].RaceStartUs, plan.RetryDelayUs)
				}
				fail("C25.released-handle-sends-nothing", fmt.Sprintf("connection c%d received %q of session %d at +%dus, after that session's release/Close had returned at +%dus: %s", e.Conn, trunc(e.Argv), si, e.At, run.Sess[si].ReleasedUs, how))
			}
		case "reply":
			if r := byReq[[2]int{e.Conn, e.Req}]; r != nil && r.replySeq < 0 {
				r.replySeq = e.Seq
			}
		}
	}
	sessCmds := make([][]c25Cmd, ns)
	for si, s := range plan.Sessions {
		sessCmds[si] = c25SessionCmds(si, s)
	}
	type block struct {
		kind         string // session | blocking
		si           int
		conn         int
		first, n     int   // index into perConn[conn], number of commands found
		firstSeq     int64 // recv seq of the first command
		lastSeq      int64
		firstAtUs    int64
		complete     bool
		truncated    bool
		trafficIdx   int
		raceAttempts int
	}
	var blocks []*block
	sessBlock := make([]*block, ns)
	// a late Close on a released handle (recorded defect) may kill the connection under its next holder
	excusedConnFrom := map[int]int64{} // conn -> time from which replies on it are not judged
	for _, id := range connIDs {
		list := perConn[id]
		// handshake: up to and including CLIENT SETINFO LIB-VER
		i := 0
		for i < len(list) {
			a := list[i].e.Argv
			i++
			if len(a) == 4 && a[0] == "CLIENT" && a[1] == "SETINFO" && a[2] == "LIB-VER" {
				break
			}
		}
		for i < len(list) {
			a := list[i].e.Argv
			si := c25SessionOf(a, ns)
			switch {
			case id < run.NPipeline:
				if si >= 0 || (a[0] == "VREPLY" && strings.HasPrefix(a[1], "b")) {
					fail("C25.dedicated-connection", fmt.Sprintf("%q was received on the shared pipelining connection c%d", trunc(a), id))
				}
				if !(a[0] == "VREPLY" && strings.HasPrefix(a[1], "t")) && !sim.ClientInternal(a) {
					fail("C25.frames", fmt.Sprintf("the shared connection c%d received %q which nobody issued", id, trunc(a)))
				}
				i++
			case si >= 0:
				L := sessCmds[si]
				if sessBlock[si] != nil || strings.Join(a, "\x00") != strings.Join(L[0].Argv, "\x00") {
					detail := fmt.Sprintf("connection c%d received %q of session %d outside that session's block of commands", id, trunc(a), si)
					if strings.Contains(a[1], "-after") {
						fail("C25.recycled-handle-inert", detail+": a call on the released handle reached the server")
					}
					fail("C25.isolation", detail)
				}
				b := &block{kind: "session", si: si, conn: id, first: i, firstSeq: list[i].e.Seq, firstAtUs: list[i].e.At}
				for k := range L {
					if i+k >= len(list) {
						b.truncated = true
						break
					}
					got := list[i+k].e.Argv
					if strings.Join(got, "\x00") != strings.Join(L[k].Argv, "\x00") {
						if c25Cleanup(got) && len(lateClose) > 0 {
							b.truncated = true // the connection was closed under the session (Close on another, released handle): judged below
							break
						}
						fail("C25.isolation", fmt.Sprintf("connection c%d: after %d of the %d commands of session %d the server received %q, expected that session's next command %q: another caller's command on a dedicated connection", id, k, len(L), si, trunc(got), trunc(L[k].Argv)))
					}
					b.n++
					b.lastSeq = list[i+k].e.Seq
				}
				b.complete = b.n == len(L)
				sessBlock[si] = b
				blocks = append(blocks, b)
				i += b.n
				// the attempts of the session's racing call follow (each attempt sends the call's commands again)
				if rcs := c25RaceCmds(si, plan.Sessions[si]); b.complete && len(rcs) > 0 {
				attempts:
					for {
						for k, want := range rcs {
							if i+k >= len(list) || strings.Join(list[i+k].e.Argv, "\x00") != strings.Join(want, "\x00") {
								break attempts
							}
						}
						i += len(rcs)
						b.raceAttempts++
						b.lastSeq = list[i-1].e.Seq
					}
				}
			case a[0] == "VREPLY" && strings.HasPrefix(a[1], "b"):
				ti, _ := strconv.Atoi(strings.SplitN(a[1][1:], "-", 2)[0])
				blocks = append(blocks, &block{kind: "blocking", si: -1, conn: id, first: i, n: 1, firstSeq: list[i].e.Seq, lastSeq: list[i].e.Seq, firstAtUs: list[i].e.At, complete: true, trafficIdx: ti})
				i++
			case c25Cleanup(a):
				i++
			default:
				fail("C25.isolation", fmt.Sprintf("pool connection c%d received %q which is neither a session's command, a blocking command nor a clean-up command", id, trunc(a)))
			}
		}
	}
	for si, s := range plan.Sessions {
		o := run.Sess[si]
		if !o.Done {
			continue
		}
		b := sessBlock[si]
		if b == nil {
			fail("C25.isolation", fmt.Sprintf("session %d: none of its commands reached a pool connection", si))
		}
		if !b.complete {
			// legitimate only when the connection died under the session because of the late-Close defect
			if !knownLateClose {
				if len(lateClose) > 0 {
					fail("C25.recycled-handle-inert", fmt.Sprintf("session %d: only %d of its %d commands reached connection c%d; a released handle of another session was closed at %v", si, b.n, len(sessCmds[si]), b.conn, lateClose))
				}
				fail("C25.isolation", fmt.Sprintf("session %d: only %d of its %d commands reached connection c%d", si, b.n, len(sessCmds[si]), b.conn))
			}
		}
		_ = s
	}
	if len(lateClose) > 0 {
		class["close-after-release"] = true
		for si, at := range lateClose {
			b := sessBlock[si]
			if b == nil {
				continue
			}
			if prev, ok := excusedConnFrom[b.conn]; !ok || at < prev {
				excusedConnFrom[b.conn] = at // whoever holds the connection from now on may lose it
			}
			cl, closed := run.ClientClose[b.conn]
			if !closed || cl < at || cl > at+1100000 || cl >= run.CloseUs {
				continue // the connection outlived the call (or had been closed before it)
			}
			ambiguous := false
			for sj, s2 := range plan.Sessions {
				if b2 := sessBlock[sj]; sj != si && b2 != nil && b2.conn == b.conn && s2.End != "release" {
					ambiguous = true // another session closed this connection itself
				}
			}
			if !ambiguous {
				if !knownLateClose {
					fail("C25.recycled-handle-inert", fmt.Sprintf("session %d: Close on the handle that had been released at +%dus closed connection c%d at +%dus although the connection belongs to the pool (or to its next user) by then", si, run.Sess[si].ReleasedUs, b.conn, at))
				}
			}
		}
	}
	// excused: the holder still had the connection when the late Close hit it
	excused := func(b *block) bool {
		at, ok := excusedConnFrom[b.conn]
		if !ok {
			return false
		}
		if b.kind == "session" {
			return run.Sess[b.si].ReleasedUs >= at || !b.complete
		}
		return run.Traffic[b.trafficIdx].EndUs >= at
	}

	// ---- order of holders per connection; state leaks of an abandoned transaction
	sort.SliceStable(blocks, func(i, j int) bool { return blocks[i].firstSeq < blocks[j].firstSeq })
	taintedTx := map[int]int64{} // conn -> seq after which MULTI/WATCH state of an abandoned transaction may linger
	for _, b := range blocks {
		if b.kind == "session" && plan.Sessions[b.si].leavesTx() != "" && plan.Sessions[b.si].End == "release" && b.complete {
			if _, ok := taintedTx[b.conn]; !ok {
				taintedTx[b.conn] = b.lastSeq
			}
		}
	}
	txTainted := func(b *block) bool {
		sq, ok := taintedTx[b.conn]
		return ok && b.firstSeq > sq
	}

	// ---- reference model over the log: expected reply of every session command
	type sessModel struct {
		watched map[string]bool
		dirty   bool
		inMulti bool
		queue   [][]string
	}
	models := make([]*sessModel, ns)
	for i := range models {
		models[i] = &sessModel{watched: map[string]bool{}}
	}
	kv := map[string]string{}
	type exp struct {
		kind string // ok queued nil value exec-ok exec-nil exact noerr
		val  string
		n    int
	}
	expected := make([][]*exp, ns)
	for si := range expected {
		expected[si] = make([]*exp, len(sessCmds[si]))
	}
	cmdAt := map[[2]int][2]int{} // (conn, req) -> (session, index)
	for si, b := range sessBlock {
		if b == nil {
			continue
		}
		for k := 0; k < b.n; k++ {
			e := perConn[b.conn][b.first+k].e
			cmdAt[[2]int{e.Conn, e.Req}] = [2]int{si, k}
		}
	}
	seenReply := map[[2]int]bool{}
	setKey := func(k, v string) {
		kv[k] = v
		for _, m := range models {
			if m.watched[k] {
				m.dirty = true
			}
		}
	}
	for _, e := range run.Events {
		switch e.Kind {
		case "exec":
			if len(e.Argv) == 3 && e.Argv[0] == "SET" {
				setKey(e.Argv[1], e.Argv[2])
			}
		case "reply":
			key := [2]int{e.Conn, e.Req}
			sk, ok := cmdAt[key]
			if !ok || seenReply[key] {
				continue
			}
			seenReply[key] = true
			si, k := sk[0], sk[1]
			m, cm := models[si], sessCmds[si][k]
			var x *exp
			switch cm.Role {
			case "mark":
				x = &exp{kind: "exact"}
			case "watch":
				x = &exp{kind: "ok"}
				m.watched[cm.Argv[1]] = true
			case "get":
				if m.inMulti {
					x = &exp{kind: "queued"}
				} else if v, ok := kv[cm.Argv[1]]; ok {
					x = &exp{kind: "value", val: v}
				} else {
					x = &exp{kind: "nil"}
				}
			case "multi":
				x = &exp{kind: "ok"}
				m.inMulti, m.queue = true, nil
			case "set":
				if m.inMulti {
					x = &exp{kind: "queued"}
					m.queue = append(m.queue, cm.Argv)
				} else {
					x = &exp{kind: "ok"}
					setKey(cm.Argv[1], cm.Argv[2])
				}
			case "exec":
				if m.dirty {
					x = &exp{kind: "exec-nil"}
				} else {
					x = &exp{kind: "exec-ok", n: len(m.queue)}
					for _, q := range m.queue {
						setKey(q[1], q[2])
					}
				}
				m.inMulti, m.queue, m.dirty, m.watched = false, nil, false, map[string]bool{}
			case "sub", "track-on":
				x = &exp{kind: "noerr"}
			}
			expected[si][k] = x
		}
	}

	// ---- per session: replies, released handle, hooks, state at the next hand-out
	blockingDuringSession, useAfterRelease, releasedInBackoff := false, false, false
	for si, s := range plan.Sessions {
		o := run.Sess[si]
		b := sessBlock[si]
		if !o.Done || b == nil {
			continue
		}
		where := fmt.Sprintf("session %d (%s, connection c%d)", si, s.Via, b.conn)
		class["via-"+s.Via] = true
		class["end-"+s.End] = true
		if s.pipelined() {
			class["pipelined-mode"] = true
		} else {
			class["synchronous-mode"] = true
		}
		if b.conn < run.NPipeline {
			fail("C25.dedicated-connection", where+": runs on the shared pipelining connection")
		}
		skipReplies := excused(b) || (txTainted(b) && knownAbandon)
		if txTainted(b) {
			class["after-abandoned-transaction"] = true
		}
		if !skipReplies {
			for k, cm := range sessCmds[si] {
				if k >= b.n || k >= o.Issued {
					break
				}
				x := expected[si][k]
				r := o.Results[k]
				at := fmt.Sprintf("%s command %d %q", where, k, trunc(cm.Argv))
				if cm.Role == "sub" && s.Steps[min(cm.Step, len(s.Steps)-1)].Kind == "receive" {
					if err := o.RecvErrs[cm.Step]; !errors.Is(err, context.DeadlineExceeded) {
						fail("C25.own-replies", fmt.Sprintf("%s: Receive returned %v, want its context's deadline error", at, err))
					}
					continue
				}
				if x == nil {
					fail("C25.own-replies", fmt.Sprintf("%s: the server never replied", at))
				}
				clause := "C25.own-replies"
				if txTainted(b) {
					clause = "C25.tx-state-leak"
					at += " [the previous user of this connection left a WATCH/MULTI open when it released it]"
				}
				bad := func(want string) {
					m, err := r.ToMessage()
					fail(clause, fmt.Sprintf("%s: got %s / %v, want %s", at, m.String(), err, want))
				}
				switch x.kind {
				case "exact":
					if err := sim.MatchResult(r, c25MarkReply(si, cm.Step)); err != nil {
						bad("its own VREPLY payload (" + err.Error() + ")")
					}
				case "ok", "queued":
					want := map[string]string{"ok": "OK", "queued": "QUEUED"}[x.kind]
					if sv, err := r.ToString(); err != nil || sv != want {
						bad(want)
					}
				case "nil":
					if !rueidis.IsRedisNil(r.Error()) {
						bad("a nil reply")
					}
				case "value":
					if sv, err := r.ToString(); err != nil || sv != x.val {
						bad(fmt.Sprintf("%q", x.val))
					}
				case "exec-nil":
					class["exec-aborted-by-own-watch"] = true
					if !rueidis.IsRedisNil(r.Error()) {
						bad("a nil EXEC (a watched key was modified)")
					}
				case "exec-ok":
					class["exec-committed"] = true
					arr, err := r.ToArray()
					if err != nil || len(arr) != x.n {
						if rueidis.IsRedisNil(r.Error()) {
							clause = "C25.tx-state-leak"
						}
						bad(fmt.Sprintf("the results of %d queued commands: none of the keys this session watched was modified between its WATCH and EXEC", x.n))
					}
				case "noerr":
					if err := r.Error(); err != nil {
						bad("no error")
					}
				}
			}
		}
		// the released handle
		for ai, a := range o.After {
			useAfterRelease = true
			class["after-"+a.Kind] = true
			at := fmt.Sprintf("%s: %s on the released handle (call %d, +%dus)", where, a.Kind, ai, a.AtUs)
			switch a.Kind {
			case "do", "domulti", "receive", "hooks", "oninval":
				want := map[string]int{"do": 1, "domulti": 2, "receive": 1, "hooks": 1, "oninval": 1}[a.Kind]
				if len(a.Errs) != want {
					fail("C25.recycled-handle-rejects", fmt.Sprintf("%s returned %d results, want %d", at, len(a.Errs), want))
				}
				for _, err := range a.Errs {
					if !errors.Is(err, rueidis.ErrDedicatedClientRecycled) {
						fail("C25.recycled-handle-rejects", fmt.Sprintf("%s returned %v, want ErrDedicatedClientRecycled", at, err))
					}
				}
			}
		}
		// the racing call: released while it waits between two attempts, or after it has completed
		if s.Race != nil && o.RaceDone {
			class["retry-race-"+s.Race.Kind] = true
			lastAttemptUs := o.RaceStartUs + int64(s.Race.Loading)*int64(plan.RetryDelayUs) // the attempt that gets the real reply
			inBackoff := o.ReleaseUs < lastAttemptUs
			if inBackoff {
				class["released-during-retry-backoff"] = true
				releasedInBackoff = true
			} else {
				class["released-after-racing-call-completed"] = true
			}
			if b.raceAttempts > 1 {
				class["racing-call-retried"] = true
			}
			for k, r := range o.RaceResults {
				at := fmt.Sprintf("%s racing %s position %d (started +%dus, %d x LOADING, RetryDelay %dus, handle released at +%dus)", where, s.Race.Kind, k, o.RaceStartUs, s.Race.Loading, plan.RetryDelayUs, o.ReleaseUs)
				err := r.Error()
				var re *rueidis.RedisError
				switch {
				case err == nil:
					if merr := sim.MatchResult(r, c25RaceReply(si, k)); merr != nil {
						fail("C25.own-replies", fmt.Sprintf("%s: %v", at, merr))
					}
					class["racing-call-completed"] = true
				case excused(b):
				case !inBackoff:
					fail("C25.own-replies", fmt.Sprintf("%s: returned %v although every attempt preceded the release", at, err))
				case errors.Is(err, rueidis.ErrDedicatedClientRecycled):
					class["racing-call-rejected-recycled"] = true
				case errors.As(err, &re) && re.IsLoading():
					class["racing-call-returned-loading"] = true
				case s.End != "release":
					class["racing-call-failed-by-close"] = true // Close hit the wire while an attempt was under way
				default:
					fail("C25.recycled-handle-rejects", fmt.Sprintf("%s: returned %v; a call overtaken by the release returns ErrDedicatedClientRecycled or the error of its last attempt", at, err))
				}
			}
		}
		// hooks
		if o.HookChans > 0 {
			class["hooks"] = true
			if o.ChansClosed != o.HookChans && !excused(b) {
				fail("C25.hooks-removed", fmt.Sprintf("%s: %d of the %d channels returned by SetPubSubHooks/SetOnInvalidations were not closed when the connection had been released", where, o.HookChans-o.ChansClosed, o.HookChans))
			}
		}
		for _, m := range append(append([]c25Msg(nil), o.Msgs...), o.RecvMsgs...) {
			if m.AtUs > o.ReleasedUs {
				fail("C25.hooks-removed", fmt.Sprintf("%s: its message handler was called at +%dus (%s %q), after the release had returned at +%dus", where, m.AtUs, m.Chan, m.Msg, o.ReleasedUs))
			}
			if c25SessionOf([]string{"", m.Chan}, ns) != si {
				fail("C25.isolation", fmt.Sprintf("%s: received a message of channel %q which it never subscribed to", where, m.Chan))
			}
			class["message-delivered"] = true
		}
		for _, at := range o.Invalidation {
			if at > o.ReleasedUs {
				fail("C25.hooks-removed", fmt.Sprintf("%s: its invalidation handler was called at +%dus, after the release had returned at +%dus", where, at, o.ReleasedUs))
			}
			class["invalidation-delivered"] = true
		}
	}

	// ---- the state the next holder of each pool connection finds
	byConnBlocks := map[int][]*block{}
	for _, b := range blocks {
		byConnBlocks[b.conn] = append(byConnBlocks[b.conn], b)
	}
	for id, bs := range byConnBlocks {
		for k := 1; k < len(bs); k++ {
			prev, cur := bs[k-1], bs[k]
			if prev.kind != "session" {
				continue
			}
			class["connection-reused-after-session"] = true
			if cur.kind == "blocking" {
				class["blocking-reuses-session-connection"] = true
			}
			ps := plan.Sessions[prev.si]
			if cur.firstAtUs < run.Sess[prev.si].ReleaseUs && !excused(cur) {
				fail("C25.isolation", fmt.Sprintf("connection c%d was handed to its next user at +%dus, before session %d released it at +%dus", id, cur.firstAtUs, prev.si, run.Sess[prev.si].ReleaseUs))
			}
			e := perConn[id][cur.first].e
			st, ok := run.Snaps[[2]int{id, e.Req}]
			if !ok || excused(cur) || excused(prev) {
				continue
			}
			who := fmt.Sprintf("connection c%d when handed to its next user (%q at +%dus) after session %d", id, trunc(e.Argv), e.At, prev.si)
			if n := len(st.Subs) + len(st.PSubs) + len(st.SSubs); n != 0 {
				fail("C25.subscriptions-removed", fmt.Sprintf("%s still has subscriptions %v %v %v", who, st.Subs, st.PSubs, st.SSubs))
			}
			if tr, hooksAfter := ps.tracks(); tr && st.Tracking {
				class["tracking-session"] = true
				if !(hooksAfter && c.Known("C25.sethooks-drops-oninvalidations")) {
					detail := ""
					if hooksAfter {
						detail = " (the session called SetPubSubHooks after SetOnInvalidations, which dropped the invalidation callback)"
					}
					fail("C25.tracking-removed", fmt.Sprintf("%s still has CLIENT TRACKING on%s", who, detail))
				}
			} else if tr {
				class["tracking-session"] = true
			}
			if st.InMulti || len(st.Watching) > 0 {
				if !knownAbandon {
					fail("C25.tx-state-leak", fmt.Sprintf("%s is still inside MULTI (%v, %d queued) or has WATCHed keys %v of the previous session", who, st.InMulti, st.Queued, st.Watching))
				}
			}
		}
	}

	// ---- other callers' results
	for ti, tr := range plan.Traffic {
		o := run.Traffic[ti]
		if !o.Done {
			continue
		}
		class["traffic-"+tr.Kind] = true
		var blk *block
		for _, b := range blocks {
			if b.kind == "blocking" && b.trafficIdx == ti {
				blk = b
			}
		}
		if tr.Kind == "block" {
			if blk == nil {
				if !knownLateClose {
					fail("C25.blocking-served", fmt.Sprintf("blocking command %d never reached a pool connection", ti))
				}
				continue
			}
			for _, b := range blocks {
				if b.kind == "session" && b.firstSeq < blk.firstSeq && blk.firstSeq < b.lastSeq {
					blockingDuringSession = true
				}
			}
			if excused(blk) || (txTainted(blk) && knownAbandon) {
				continue
			}
		}
		for k, r := range o.Results {
			if err := sim.MatchResult(r, c25TrafficReply(ti, k)); err != nil {
				clause := "C25.other-callers-replies"
				if blk != nil && txTainted(blk) {
					clause = "C25.tx-state-leak"
				}
				fail(clause, fmt.Sprintf("%s call %d position %d: %v", tr.Kind, ti, k, err))
			}
		}
	}

	// ---- pool bound
	type oc struct {
		at    int64
		delta int
	}
	var ocs []oc
	for _, id := range connIDs {
		if id < run.NPipeline {
			continue
		}
		ocs = append(ocs, oc{connOpen[id], 1})
		if cl, ok := connClose[id]; ok {
			ocs = append(ocs, oc{cl, -1})
		}
	}
	sort.SliceStable(ocs, func(i, j int) bool {
		if ocs[i].at != ocs[j].at {
			return ocs[i].at < ocs[j].at
		}
		return ocs[i].delta < ocs[j].delta
	})
	cur, maxOpen := 0, 0
	for _, x := range ocs {
		if cur += x.delta; cur > maxOpen {
			maxOpen = cur
		}
	}
	if maxOpen > plan.PoolSize {
		fail("C25.pool-cap", fmt.Sprintf("%d pool connections were open at once with BlockingPoolSize %d", maxOpen, plan.PoolSize))
	}
	if blockingDuringSession {
		class["blocking-while-session-open"] = true
	}
	if useAfterRelease {
		class["use-after-release"] = true
	}
	return blockingDuringSession || useAfterRelease || releasedInBackoff, nil
}

func TestVerif_C25_Dedicated(t *testing.T) {
	c := stat.For("C25", "dedicated-"+queueLabel()).Rule("timed plans in a synctest bubble, single client, BlockingPoolSize 1-3: 1-3 dedicated sessions (Dedicated(fn) or Dedicate(); steps from {tagged VREPLY, WATCH, GET, MULTI/SET/EXEC via Do or one DoMulti, SetPubSubHooks+SUBSCRIBE/PSUBSCRIBE/SSUBSCRIBE, Receive with a deadline, SetOnInvalidations+CLIENT TRACKING ON+GET}, generated pauses, synchronous or pipelined mode, optionally ending with a racing call: a read-only Do/DoMulti answered -LOADING for its first 1-3 attempts with a generated RetryDelay, running in its own goroutine while the session is released/closed at an instant inside a back-off or after the call; ended by release, Close or Close twice) interleaved with shared-pipeline Do/DoMulti, blocking-tagged commands with server latency (same pool), external SETs of the sessions' keys and publishes; afterwards calls on the released handle {Do, DoMulti, Receive, SetPubSubHooks, SetOnInvalidations, Close, release again}; oracle: per-connection server log (each session's commands are one contiguous block on one pool connection, only clean-up commands around it, nothing of a released handle arrives: no command issued through a handle is received later than its release/Close returned), reference model of keys/WATCH/MULTI replayed over the log for every reply (EXEC aborts only for the session's own WATCH), ErrDedicatedClientRecycled from every call after release, handlers silent and channels closed after release, fake's session state at the next hand-out of the connection (no subscriptions, tracking off, no MULTI/WATCH), pool bound, no hang; non-trivial = a blocking command served while a session is open, or a call on a released handle, or a release during a retry back-off")
	defer c.Flush()
	if p := os.Getenv("VERIF_REPLAY_JSON"); p != "" {
		var plan c25Plan
		b, _ := os.ReadFile(p)
		if err := json.Unmarshal(b, &plan); err != nil {
			t.Fatal(err)
		}
		run := c25RunPlan(t, plan)
		for _, e := range run.Events {
			e.Argv = trunc(e.Argv)
			t.Log(e)
		}
		for si, o := range run.Sess {
			t.Logf("session %d: start +%d acquired +%d release +%d..+%d issued=%d msgs=%v recvmsgs=%v inval=%v chans=%d/%d recvErrs=%v", si, o.StartUs, o.AcquiredUs, o.ReleaseUs, o.ReleasedUs, o.Issued, o.Msgs, o.RecvMsgs, o.Invalidation, o.ChansClosed, o.HookChans, o.RecvErrs)
			for k, r := range o.Results {
				if k < o.Issued {
					m, err := r.ToMessage()
					t.Logf("   %d: %s %v", k, m.String(), err)
				}
			}
			for _, a := range o.After {
				t.Logf("   after %s +%d: %v", a.Kind, a.AtUs, a.Errs)
			}
		}
		t.Logf("client closes: %v; close at +%d", run.ClientClose, run.CloseUs)
		t.Log(run.Res)
		c25Check(c, t, plan, run)
		return
	}
	rapid.Check(t, func(rt *rapid.T) {
		plan := genC25Plan(rt, c)
		saveCase("c25", plan)
		run := c25RunPlan(t, plan)
		if run.Res.Frozen {
			c.Inconclusive("virtual-clock-freeze")
			return
		}
		nt, classes := c25Check(c, rt, plan, run)
		key, _ := json.Marshal(plan)
		c.Eval(nt, string(key), classes...)
		c.Sample(nt, func() any { return plan })
	})
}
