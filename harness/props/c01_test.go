package props

import (
	"context"
	"encoding/json"
	"errors"
	"fmt"
	"os"
	"path/filepath"
	"strconv"
	"strings"
	"sync"
	"testing"
	"time"

	"github.com/redis/rueidis"
	"pgregory.net/rapid"
	"verif/harness/sim"
	"verifkit/bubble"
	"verifkit/fakeredis"
	"verifkit/resp"
	"verifkit/rgen"
	"verifkit/stat"
)

type c01Cfg struct {
	RingScale        int   `json:"ring_scale"`
	Multiplex        int   `json:"multiplex"`
	AlwaysPipelining bool  `json:"always_pipelining"`
	RESP2            bool  `json:"resp2"`
	FlushDelayUs     int   `json:"flush_delay_us"`
	PoolSize         int   `json:"pool_size"`
	CacheLats        []int `json:"cache_lats_us,omitempty"` // ring runs: latency before the n-th cache fetch batch
}

type c01Cmd struct {
	UID   string     `json:"uid"`
	Reply resp.Value `json:"reply"`
	LatUs int        `json:"lat_us"`
}

type c01Op struct {
	GapUs      int      `json:"gap_us"` // pause before the op
	Kind       string   `json:"kind"`   // do multi cache multicache block receive
	Cmds       []c01Cmd `json:"cmds,omitempty"`
	Keys       []string `json:"keys,omitempty"`
	Chan       string   `json:"chan,omitempty"`
	CancelUs   int      `json:"cancel_us,omitempty"`
	DeadlineUs int      `json:"deadline_us,omitempty"`
}

type c01Ext struct {
	AtUs int    `json:"at_us"`
	Kind string `json:"kind"` // publish invalidate
	Chan string `json:"chan,omitempty"`
	Msg  string `json:"msg,omitempty"`
	N    int    `json:"n,omitempty"` // invalidate: pushes in the burst
}

type c01Plan struct {
	Cfg     c01Cfg    `json:"cfg"`
	Callers [][]c01Op `json:"callers"`
	Ext     []c01Ext  `json:"ext,omitempty"`
}

type c01Result struct {
	Caller, Op int
	StartUs    int64
	EndUs      int64
	Results    []rueidis.RedisResult
	Err        error // Receive
	Msgs       []string
	Done       bool
}

// With the ring queue the client's reader keeps a slot mutex locked from the first to the last
// reply of a batch. A goroutine blocked on a sync.Mutex is not "durably blocked" for synctest,
// so virtual time cannot advance while a putter or the writer waits for that mutex; a server
// that needs virtual time *between* two replies of one batch would then freeze the bubble (an
// artefact of the virtual clock, not of rueidis). With the ring queue latency is therefore
// only applied before the first reply of a batch; the flow-buffer runs keep intra-batch delays.
func c01Latency(ring bool, cacheLats []int) func(c *fakeredis.Conn, req int, argv []string) time.Duration {
	var mu sync.Mutex
	optins := 0
	return func(c *fakeredis.Conn, req int, argv []string) time.Duration {
		if ring && c.BurstIdx != 0 {
			return 0
		}
		if ring && len(cacheLats) > 0 && (len(argv) == 3 && strings.EqualFold(argv[0], "CLIENT") && strings.EqualFold(argv[1], "CACHING") || len(argv) == 2 && argv[0] == "ECHO" && argv[1] == "") {
			mu.Lock()
			n := cacheLats[optins%len(cacheLats)]
			optins++
			mu.Unlock()
			return time.Duration(n) * time.Microsecond
		}
		return c01LatencyOf(ring, argv)
	}
}

func c01LatencyOf(ring bool, argv []string) time.Duration {
	switch strings.ToUpper(argv[0]) {
	case "VREPLY":
		if len(argv) > 3 {
			n, _ := strconv.Atoi(argv[3])
			return time.Duration(n) * time.Microsecond
		}
	case "GET", "EXEC":
		if ring {
			return 0
		}
		// keys look like "k3:L500": the GET (or the EXEC that runs it) takes 500us
		for _, a := range argv[1:] {
			if i := strings.LastIndex(a, ":L"); i >= 0 {
				n, _ := strconv.Atoi(a[i+2:])
				return time.Duration(n) * time.Microsecond
			}
		}
	}
	return 0
}

func saveCase(name string, v any) {
	d := os.Getenv("VERIF_WORK")
	if d == "" {
		return
	}
	b, _ := json.Marshal(v)
	_ = os.WriteFile(filepath.Join(d, "last-case."+name+".json"), b, 0o644)
}

func c01Run(t *testing.T, plan c01Plan) (res bubble.Result, results []*c01Result, events []fakeredis.Event, closeOK bool, pendingAtEnd int) {
	var mu sync.Mutex
	for ci, ops := range plan.Callers {
		for oi := range ops {
			results = append(results, &c01Result{Caller: ci, Op: oi})
		}
	}
	idx := func(ci, oi int) *c01Result {
		n := 0
		for c := 0; c < ci; c++ {
			n += len(plan.Callers[c])
		}
		return results[n+oi]
	}
	res = bubble.Run(t, func() {
		w := fakeredis.NewWorld()
		srv := w.NewServer("127.0.0.1:6379")
		srv.Hooks.Latency = c01Latency(queueLabel() == "ring", plan.Cfg.CacheLats)
		for _, ops := range plan.Callers {
			for _, op := range ops {
				for _, k := range op.Keys {
					srv.Do("SET", k, "val:"+k)
				}
			}
		}
		opt := sim.Option(w, "127.0.0.1:6379")
		opt.ForceSingleClient = true
		opt.DisableRetry = true
		opt.RingScaleEachConn = plan.Cfg.RingScale
		opt.PipelineMultiplex = plan.Cfg.Multiplex
		opt.AlwaysPipelining = plan.Cfg.AlwaysPipelining
		opt.BlockingPoolSize = plan.Cfg.PoolSize
		opt.MaxFlushDelay = time.Duration(plan.Cfg.FlushDelayUs) * time.Microsecond
		if queueLabel() == "ring" {
			opt.WriteBufferEachConn = 1 << 20 // a batch must reach the server in one burst, see c01Latency
		}
		if plan.Cfg.RESP2 {
			opt.AlwaysRESP2 = true
			opt.DisableCache = true
		}
		client, err := rueidis.NewClient(opt)
		if err != nil {
			panic(fmt.Sprintf("harness: NewClient failed: %v", err))
		}
		clock := sim.NewClock()
		var wg sync.WaitGroup
		for ci, ops := range plan.Callers {
			wg.Add(1)
			go func(ci int, ops []c01Op) {
				defer wg.Done()
				for oi, op := range ops {
					time.Sleep(time.Duration(op.GapUs) * time.Microsecond)
					r := idx(ci, oi)
					ctx := context.Background()
					var cancel context.CancelFunc = func() {}
					if op.DeadlineUs > 0 {
						ctx, cancel = context.WithTimeout(ctx, time.Duration(op.DeadlineUs)*time.Microsecond)
					} else if op.CancelUs > 0 {
						ctx, cancel = context.WithCancel(ctx)
						time.AfterFunc(time.Duration(op.CancelUs)*time.Microsecond, cancel)
					}
					r.StartUs = clock.Us()
					build := func(c c01Cmd, block bool) rueidis.Completed {
						raw := resp.Append(nil, c.Reply)
						if plan.Cfg.RESP2 {
							raw = resp.AppendV2(nil, c.Reply)
						}
						a := client.B().Arbitrary("VREPLY").Args(c.UID, string(raw), strconv.Itoa(c.LatUs))
						if block {
							return a.Blocking()
						}
						return a.Build()
					}
					switch op.Kind {
					case "do", "block":
						r.Results = []rueidis.RedisResult{client.Do(ctx, build(op.Cmds[0], op.Kind == "block"))}
					case "multi":
						cmds := make(rueidis.Commands, len(op.Cmds))
						for i, c := range op.Cmds {
							cmds[i] = build(c, false)
						}
						r.Results = client.DoMulti(ctx, cmds...)
					case "cache":
						r.Results = []rueidis.RedisResult{client.DoCache(ctx, client.B().Get().Key(op.Keys[0]).Cache(), time.Minute)}
					case "multicache":
						cts := make([]rueidis.CacheableTTL, len(op.Keys))
						for i, k := range op.Keys {
							cts[i] = rueidis.CT(client.B().Get().Key(k).Cache(), time.Minute)
						}
						r.Results = client.DoMultiCache(ctx, cts...)
					case "receive":
						r.Err = client.Receive(ctx, client.B().Subscribe().Channel(op.Chan).Build(), func(m rueidis.PubSubMessage) {
							mu.Lock()
							r.Msgs = append(r.Msgs, m.Message)
							mu.Unlock()
						})
					}
					r.EndUs = clock.Us()
					mu.Lock()
					r.Done = true
					mu.Unlock()
					cancel()
				}
			}(ci, ops)
		}
		for _, e := range plan.Ext {
			e := e
			time.AfterFunc(time.Duration(e.AtUs)*time.Microsecond, func() {
				if e.Kind == "invalidate" {
					// a burst of out-of-band invalidation pushes on every tracking connection (the keys are not cached: no effect
					// on replies); on a connection in synchronous mode they pile up in front of the next reply
					for _, c := range srv.LiveConns() {
						for i := 0; i < e.N; i++ {
							srv.PushInvalidate(c.ID, []string{"other" + strconv.Itoa(i)})
						}
					}
					return
				}
				srv.Publish(e.Chan, e.Msg)
			})
		}
		finished := sim.WaitTimeout(&wg, 10*time.Minute)
		if !finished {
			mu.Lock()
			for _, r := range results {
				if !r.Done {
					pendingAtEnd++
				}
			}
			mu.Unlock()
		}
		closeOK = sim.CallTimeout(time.Minute, client.Close)
		w.Stop()
		events = w.Snapshot()
		// Close returns before the connection's background goroutines have finished winding down
		// (flush delay, close grace); virtual time stops when the root returns, so give them time.
		time.Sleep(5 * time.Second)
		if !finished {
			// let abandoned callers die with the closed client; if they do not, the bubble reports the leak
			sim.WaitTimeout(&wg, time.Minute)
		}
	})
	return
}

func genC01Plan(rt *rapid.T) c01Plan {
	var p c01Plan
	p.Cfg = c01Cfg{
		RingScale:        rapid.IntRange(1, 4).Draw(rt, "ringScale"),
		Multiplex:        rapid.SampledFrom([]int{-1, -1, 0, 1}).Draw(rt, "multiplex"),
		AlwaysPipelining: rapid.Bool().Draw(rt, "alwaysPipelining"),
		RESP2:            rapid.IntRange(0, 4).Draw(rt, "resp2") == 0,
		// MaxFlushDelay stays 0: when a connection dies the client's clean-up loop spins with
		// runtime.Gosched until the writer goroutine has exited; a writer sleeping out its flush delay needs
		// virtual time, which cannot advance while another goroutine of the bubble is spinning.
		FlushDelayUs: 0,
		PoolSize:     rapid.IntRange(1, 3).Draw(rt, "poolSize"),
	}
	ring := queueLabel() == "ring"
	if ring {
		p.Cfg.CacheLats = rapid.SliceOfN(rapid.SampledFrom([]int{0, 0, 500, 3000}), 1, 4).Draw(rt, "cacheLats")
	}
	opts := rgen.Opts{MaxDepth: 3, Attrs: true, Streams: true, Null2: true, Big: true, Errors: true}
	if p.Cfg.RESP2 {
		opts = rgen.Opts{MaxDepth: 3, Big: true, Errors: true, RESP2: true}
	}
	uid := 0
	nc := rapid.IntRange(1, 8).Draw(rt, "callers")
	kinds := []string{"do", "do", "multi", "multi", "cache", "multicache", "block", "receive"}
	if p.Cfg.RESP2 {
		kinds = []string{"do", "do", "multi", "multi", "block"}
	}
	chans := []string{"ch1", "ch2"}
	for c := 0; c < nc; c++ {
		no := rapid.IntRange(1, 6).Draw(rt, "ops")
		ops := make([]c01Op, no)
		for i := range ops {
			op := c01Op{GapUs: rapid.IntRange(0, 3000).Draw(rt, "gap"), Kind: rapid.SampledFrom(kinds).Draw(rt, "kind")}
			mkCmd := func() c01Cmd {
				uid++
				v := rgen.Value(rt, opts)
				if v.T == '>' {
					v = resp.Bulk("x")
				}
				// an error reply text must not look like a redirect or a retryable state to stay a plain reply
				if v.T == '-' || v.T == '!' {
					v.S = "ERR u" + strconv.Itoa(uid)
				}
				return c01Cmd{UID: "u" + strconv.Itoa(uid), Reply: v, LatUs: rapid.SampledFrom([]int{0, 0, 100, 1000, 5000, 10000}).Draw(rt, "lat")}
			}
			switch op.Kind {
			case "do", "block":
				op.Cmds = []c01Cmd{mkCmd()}
			case "multi":
				n := rapid.IntRange(1, 5).Draw(rt, "n")
				for k := 0; k < n; k++ {
					op.Cmds = append(op.Cmds, mkCmd())
					if ring && k > 0 {
						op.Cmds[k].LatUs = 0
					}
				}
			case "cache":
				op.Keys = []string{c01Key(rt, c)}
			case "multicache":
				n := rapid.IntRange(1, 4).Draw(rt, "n")
				for k := 0; k < n; k++ {
					op.Keys = append(op.Keys, c01Key(rt, c))
				}
			case "receive":
				op.Chan = rapid.SampledFrom(chans).Draw(rt, "chan")
				op.CancelUs = rapid.IntRange(500, 20000).Draw(rt, "recvFor")
			}
			if op.Kind != "receive" {
				switch rapid.IntRange(0, 5).Draw(rt, "ctxKind") {
				case 0:
					op.CancelUs = rapid.SampledFrom([]int{1, 50, 150, 600, 1500, 4000, 8000}).Draw(rt, "cancelAt")
				case 1:
					if rapid.Bool().Draw(rt, "useDeadline") {
						op.DeadlineUs = rapid.SampledFrom([]int{50, 600, 1500, 4000, 8000, 30000}).Draw(rt, "deadline")
					}
				}
			}
			ops[i] = op
		}
		p.Callers = append(p.Callers, ops)
	}
	if !p.Cfg.RESP2 {
		ni := rapid.IntRange(0, 3).Draw(rt, "invalidateBursts")
		for i := 0; i < ni; i++ {
			p.Ext = append(p.Ext, c01Ext{AtUs: rapid.IntRange(0, 25000).Draw(rt, "invAt"), Kind: "invalidate", N: rapid.IntRange(1, 4).Draw(rt, "invN")})
		}
		if rapid.IntRange(0, 5).Draw(rt, "syncModeShape") == 0 {
			// directed shape: one caller with plain contexts keeps the connection in synchronous mode (no reader goroutine),
			// so pushes that arrive between two calls sit in front of the next reply
			p.Cfg.AlwaysPipelining = false
			p.Callers = p.Callers[:1]
			var ops []c01Op
			for _, op := range p.Callers[0] {
				if op.Kind == "receive" {
					continue
				}
				op.CancelUs, op.DeadlineUs = 0, 0
				ops = append(ops, op)
			}
			if len(ops) == 0 {
				ops = []c01Op{{Kind: "cache", Keys: []string{c01Key(rt, 0)}}}
			}
			p.Callers[0] = ops
			at := 0
			for i := range ops {
				at += ops[i].GapUs
				if ops[i].GapUs > 1 {
					p.Ext = append(p.Ext, c01Ext{AtUs: at - ops[i].GapUs/2, Kind: "invalidate", N: rapid.IntRange(2, 4).Draw(rt, "burstN")})
				}
				at += 12000 // upper bound of what an op takes; the next gap is counted from its end, so later bursts are approximate
			}
		}
	}
	ne := rapid.IntRange(0, 6).Draw(rt, "ext")
	for i := 0; i < ne; i++ {
		p.Ext = append(p.Ext, c01Ext{AtUs: rapid.IntRange(0, 25000).Draw(rt, "extAt"), Kind: "publish", Chan: rapid.SampledFrom(chans).Draw(rt, "extChan"), Msg: "m" + strconv.Itoa(i)})
	}
	return p
}

func c01Key(rt *rapid.T, caller int) string {
	lat := rapid.SampledFrom([]int{0, 0, 500, 3000}).Draw(rt, "keyLat")
	if rapid.Bool().Draw(rt, "sharedKey") {
		return fmt.Sprintf("shared%d:L%d", rapid.IntRange(0, 2).Draw(rt, "sk"), lat)
	}
	return fmt.Sprintf("own%d-%d:L%d", caller, rapid.IntRange(0, 1).Draw(rt, "ok"), lat)
}

func isCtxErr(err error) bool {
	return errors.Is(err, context.Canceled) || errors.Is(err, context.DeadlineExceeded)
}

func c01Check(c *stat.Collector, rt stat.Fataler, plan c01Plan, res bubble.Result, results []*c01Result, events []fakeredis.Event, closeOK bool, pending int) (nt bool, classes []string) {
	if pending > 0 || res.Deadlock {
		c.Fail(rt, "C01.no-hang", fmt.Sprintf("%d calls never returned (%s)", pending, res), plan)
	}
	if res.Panic != nil {
		c.Fail(rt, "C01.no-panic", res.String(), plan)
	}
	if res.Leak {
		c.Fail(rt, "C01.no-leak", res.String(), plan)
	}
	if !closeOK {
		c.Fail(rt, "C01.close-returns", "Client.Close did not return within a virtual minute", plan)
	}
	anyDeadline, anyCacheCancel := false, false
	issued := map[string][]string{}
	for ci, ops := range plan.Callers {
		for _, op := range ops {
			if op.DeadlineUs > 0 {
				anyDeadline = true
			}
			if (op.Kind == "cache" || op.Kind == "multicache") && (op.CancelUs > 0 || op.DeadlineUs > 0) {
				// waiters on another caller's cache flight receive that caller's error when it abandons the fetch (see C09)
				anyCacheCancel = true
			}
			for _, cm := range op.Cmds {
				raw := resp.Append(nil, cm.Reply)
				if plan.Cfg.RESP2 {
					raw = resp.AppendV2(nil, cm.Reply)
				}
				issued[cm.UID] = []string{"VREPLY", cm.UID, string(raw), strconv.Itoa(cm.LatUs)}
			}
		}
		_ = ci
	}
	for _, r := range results {
		op := plan.Callers[r.Caller][r.Op]
		where := fmt.Sprintf("caller %d op %d (%s)", r.Caller, r.Op, op.Kind)
		if !r.Done {
			continue
		}
		mayCtx := op.CancelUs > 0 || op.DeadlineUs > 0
		if op.Kind == "receive" {
			if r.Err == nil || !(isCtxErr(r.Err) || anyDeadline) {
				c.Fail(rt, "C01.receive-returns-ctx", fmt.Sprintf("%s returned %v, want the context error", where, r.Err), plan)
			}
			continue
		}
		want := len(op.Cmds)
		if op.Kind == "cache" || op.Kind == "multicache" {
			want = len(op.Keys)
		}
		if len(r.Results) != want {
			c.Fail(rt, "C01.positional", fmt.Sprintf("%s returned %d results for %d commands", where, len(r.Results), want), plan)
		}
		nCtx := 0
		for i, rr := range r.Results {
			err := rr.NonRedisError()
			if err != nil {
				if isCtxErr(err) && (mayCtx || (anyCacheCancel && len(op.Keys) > 0)) {
					nCtx++
					continue
				}
				if anyDeadline {
					// a caller's deadline on a synchronous read closes the shared connection: collateral failure
					continue
				}
				c.Fail(rt, "C01.unexpected-error", fmt.Sprintf("%s position %d failed with %v although nothing failed and nobody cancelled", where, i, err), plan)
			}
			var exp resp.Value
			if len(op.Cmds) > 0 {
				exp = op.Cmds[i].Reply
			} else {
				exp = resp.Bulk("val:" + op.Keys[i])
			}
			if err := sim.MatchResult(rr, exp); err != nil {
				c.Fail(rt, "C01.own-reply", fmt.Sprintf("%s position %d: %v", where, i, err), plan)
			}
		}
		if nCtx > 0 && nCtx != len(r.Results) && op.Kind == "multi" {
			c.Fail(rt, "C01.abandoned-batch", fmt.Sprintf("%s: %d of %d positions carry the context error; an abandoned call returns it in every position", where, nCtx, len(r.Results)), plan)
		}
	}
	// server side: every frame is an issued command (byte for byte, at most once) or a client-internal one
	seen := map[string]int{}
	perConn := map[int]int{}
	pushBetween := false
	lastKind := map[int]string{}
	for _, e := range events {
		switch e.Kind {
		case "recv":
			perConn[e.Conn]++
			if e.Argv[0] == "VREPLY" {
				want, ok := issued[e.Argv[1]]
				if !ok || strings.Join(want, "\x00") != strings.Join(e.Argv, "\x00") {
					c.Fail(rt, "C01.frames-are-issued-commands", fmt.Sprintf("server received %q which is not the argv of any issued command", trunc(e.Argv)), plan)
				}
				if seen[e.Argv[1]]++; seen[e.Argv[1]] > 1 {
					c.Fail(rt, "C01.sent-once", fmt.Sprintf("command %s reached the server %d times", e.Argv[1], seen[e.Argv[1]]), plan)
				}
			} else if !sim.ClientInternal(e.Argv) && !(e.Argv[0] == "GET" && len(e.Argv) == 2) && e.Argv[0] != "SUBSCRIBE" {
				c.Fail(rt, "C01.frames-are-issued-commands", fmt.Sprintf("server received %q which no caller issued and the client does not send on its own", trunc(e.Argv)), plan)
			}
		case "push":
			if lastKind[e.Conn] == "reply" {
				pushBetween = true
			}
		}
		if e.Kind == "reply" || e.Kind == "push" {
			lastKind[e.Conn] = e.Kind
		}
	}
	// non-triviality: overlapping callers plus one of the interesting situations
	overlap := false
	for i, a := range results {
		for _, b := range results[i+1:] {
			if a.Caller != b.Caller && a.Done && b.Done && a.StartUs < b.EndUs && b.StartUs < a.EndUs && a.EndUs > a.StartUs {
				overlap = true
			}
		}
	}
	cancelledInFlight := false
	for _, r := range results {
		op := plan.Callers[r.Caller][r.Op]
		if r.Done && op.Kind != "receive" && len(r.Results) > 0 && r.Results[0].NonRedisError() != nil && isCtxErr(r.Results[0].NonRedisError()) {
			for _, cm := range op.Cmds {
				if seen[cm.UID] > 0 {
					cancelledInFlight = true
				}
			}
		}
	}
	wrapped := false
	for _, n := range perConn {
		if n > 2<<(plan.Cfg.RingScale-1) {
			wrapped = true
		}
	}
	for k, v := range map[string]bool{"overlap": overlap, "cancel-in-flight": cancelledInFlight, "push-between-replies": pushBetween, "ring-wrapped": wrapped, "resp2": plan.Cfg.RESP2} {
		if v {
			classes = append(classes, k)
		}
	}
	return overlap && (cancelledInFlight || pushBetween || wrapped), classes
}

func trunc(a []string) []string {
	out := make([]string, len(a))
	for i, s := range a {
		if len(s) > 60 {
			s = s[:60] + "..."
		}
		out[i] = s
	}
	return out
}

func TestVerif_C01_Pipelining(t *testing.T) {
	c := stat.For("C01", "pipelining-"+queueLabel()).Rule("timed plans in a synctest bubble against the fake server through the public API: 1-8 callers x 1-6 ops from {Do, DoMulti(1-5), DoCache, DoMultiCache, blocking-tagged Do, Receive} with generated reply trees (every RESP type, nesting, big payloads; RESP2 variants), per-command server latency 0-10 ms, per-op cancellation/deadline at generated instants, Pub/Sub pushes published at generated instants, ring scale 1-4, PipelineMultiplex -1..1, AlwaysPipelining, MaxFlushDelay, pool size 1-3; oracle: each result position carries exactly its command's reply tree or a context error (only for ops given a cancel/deadline), server frames are byte-for-byte issued commands received at most once or client-internal commands, no hang/leak, Close returns; non-trivial = callers overlapping in time and one of {a cancelled call whose command had reached the server, a push between two replies, more requests on a connection than ring slots}")
	defer c.Flush()
	rapid.Check(t, func(rt *rapid.T) {
		plan := genC01Plan(rt)
		saveCase("c01", plan)
		res, results, events, closeOK, pending := c01Run(t, plan)
		if res.Frozen {
			c.Inconclusive("virtual-clock-freeze")
			return
		}
		nt, classes := c01Check(c, rt, plan, res, results, events, closeOK, pending)
		key, _ := json.Marshal(plan)
		c.Eval(nt, string(key), classes...)
		c.Sample(nt, func() any { return plan })
	})
}

func queueLabel() string {
	if q := os.Getenv("RUEIDIS_QUEUE_TYPE"); q != "" {
		return q
	}
	return "ring"
}
