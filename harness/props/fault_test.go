package props

// Shared fault-scenario runner for C03 (at most once), C04 (no hanging calls), C05 (deadlines)
// and C28 (retry policy): timed plans of calls against one fake server with per-attempt fault
// plans, connection kills, lifetime expiry and Close, all inside a synctest bubble.

import (
	"context"
	"encoding/json"
	"errors"
	"fmt"
	"strconv"
	"strings"
	"sync"
	"testing"
	"time"

	"github.com/redis/rueidis"
	"pgregory.net/rapid"
	"verif/harness/sim"
	"verifkit/bubble"
	"verifkit/fakeredis"
	"verifkit/resp"
)

type fCmd struct {
	UID   string   `json:"uid"`
	Class string   `json:"class"`            // write | read | retryable
	LatUs int      `json:"lat_us,omitempty"` // server latency of every attempt
	Plan  []string `json:"plan,omitempty"`   // outcome of the k-th arrival: ok drop-before drop-after drop-mid loading err nil hang
}

type fOp struct {
	GapUs      int    `json:"gap_us"`
	Kind       string `json:"kind"` // do multi cache receive block
	Cmds       []fCmd `json:"cmds,omitempty"`
	Key        string `json:"key,omitempty"`
	DeadlineUs int    `json:"deadline_us,omitempty"`
	CancelUs   int    `json:"cancel_us,omitempty"`
	DoneCtx    bool   `json:"done_ctx,omitempty"` // context already cancelled before the call
	Cause      bool   `json:"cause,omitempty"`    // the context carries a custom cause (WithTimeoutCause / WithCancelCause)
}

var errPlanCause = errors.New("custom cause")

type fEvent struct {
	AtUs int    `json:"at_us"`
	Kind string `json:"kind"` // kill-conns close server-down server-up
}

type fCfg struct {
	Retry          bool  `json:"retry"`
	RetryDelaysUs  []int `json:"retry_delays_us,omitempty"` // per attempt; -1 = stop; beyond the table = -1
	ConnLifetimeUs int   `json:"conn_lifetime_us,omitempty"`
	Pipelining     bool  `json:"always_pipelining"`
	Multiplex      int   `json:"multiplex"`
	RingScale      int   `json:"ring_scale"`
	PoolSize       int   `json:"pool_size"`
	KeepAliveUs    int   `json:"keepalive_us,omitempty"` // >0: enable the keep-alive ping with this gap
	WriteTimeoutUs int   `json:"write_timeout_us,omitempty"`
}

type fPlan struct {
	Cfg     fCfg     `json:"cfg"`
	Callers [][]fOp  `json:"callers"`
	Events  []fEvent `json:"events,omitempty"`
	// IntFaults drop the connection at a protocol step the client takes on its own (the Nth PING, UNSUBSCRIBE,
	// MULTI ... the server receives, counted over all connections), so failure points are not limited to user commands.
	IntFaults []fIntFault `json:"internal_faults,omitempty"`
}

type fIntFault struct {
	Cmd  string `json:"cmd"`
	Nth  int    `json:"nth"`
	Kind string `json:"kind"` // drop-before drop-after drop-mid
}

type fResult struct {
	Caller, Op     int
	StartUs, EndUs int64
	Results        []rueidis.RedisResult
	Err            error
	Done           bool
	AfterCloseUs   int64 // start relative to Close (>=0 means the call started after Close returned)
}

type fRetryCall struct {
	Attempt int
	UID     string
	Err     string
	DelayUs int
	AtUs    int64
}

type fRun struct {
	Res        bubble.Result
	Results    []*fResult
	Events     []fakeredis.Event
	ExecLog    []fakeredis.ExecEntry
	RetryCalls []fRetryCall
	CloseOK    bool
	CloseAtUs  int64 // when Close was called (-1: only at teardown)
	CloseEndUs int64
	Pending    int
	PendingOps []string // calls still pending when the virtual-time budget ran out
	Dials      int
}

func fUIDOf(argv []string) string {
	if len(argv) >= 2 && (argv[0] == "VEXEC" || argv[0] == "VREPLY") {
		return argv[1]
	}
	return ""
}

func fRunPlan(t *testing.T, plan fPlan) fRun { return fRunPlanMode(t, plan, false) }

// fRunPlanReal runs the plan outside the bubble, in real time. It is the second opinion on a frozen bubble: a
// goroutine that spins or sits on a sync.Mutex stops the virtual clock, which may be an artefact of virtual time
// (the others would release it once time passes) or a genuine livelock of the client; in real time the artefact
// dissolves and the livelock stays. Calls still pending after 60 s of real time (plans last a few seconds) are a hang.
func fRunPlanReal(t *testing.T, plan fPlan) fRun { return fRunPlanMode(t, plan, true) }

func fRunPlanMode(t *testing.T, plan fPlan, real bool) (run fRun) {
	long := func(d time.Duration) time.Duration {
		if real {
			return min(d, 60*time.Second)
		}
		return d
	}
	short := func(d time.Duration) time.Duration {
		if real {
			return min(d, 200*time.Millisecond)
		}
		return d
	}
	var mu sync.Mutex
	for ci, ops := range plan.Callers {
		for oi := range ops {
			run.Results = append(run.Results, &fResult{Caller: ci, Op: oi, AfterCloseUs: -1})
		}
	}
	idx := func(ci, oi int) *fResult {
		n := 0
		for c := 0; c < ci; c++ {
			n += len(plan.Callers[c])
		}
		return run.Results[n+oi]
	}
	byUID := map[string]fCmd{}
	for _, ops := range plan.Callers {
		for _, op := range ops {
			for _, c := range op.Cmds {
				byUID[c.UID] = c
			}
		}
	}
	run.CloseAtUs = -1
	ring := queueLabel() == "ring"
	body := func() {
		w := fakeredis.NewWorld()
		srv := w.NewServer("127.0.0.1:6379")
		arrivals := map[string]int{}
		srv.Hooks.Latency = func(c *fakeredis.Conn, req int, argv []string) time.Duration {
			if ring && c.BurstIdx != 0 {
				return 0
			}
			if cm, ok := byUID[fUIDOf(argv)]; ok {
				return time.Duration(cm.LatUs) * time.Microsecond
			}
			return 0
		}
		intSeen := map[string]int{}
		intPrev := map[int]string{}
		srv.Hooks.Fault = func(c *fakeredis.Conn, req int, argv []string) fakeredis.Fault {
			uid := fUIDOf(argv)
			cm, ok := byUID[uid]
			if !ok {
				if len(plan.IntFaults) > 0 && len(argv) > 0 {
					name := strings.ToUpper(argv[0])
					mu.Lock()
					n := intSeen[name]
					intSeen[name] = n + 1
					// "PING@UNSUB": the PING the client sends right behind an (P|S)UNSUBSCRIBE on the same connection
					after, nAfter := "", 0
					if strings.HasSuffix(intPrev[c.ID], "UNSUBSCRIBE") && name == "PING" {
						after = "PING@UNSUB"
						nAfter = intSeen[after]
						intSeen[after] = nAfter + 1
					}
					intPrev[c.ID] = name
					mu.Unlock()
					for _, f := range plan.IntFaults {
						if (f.Cmd == name && f.Nth == n) || (after != "" && f.Cmd == after && f.Nth == nAfter) {
							// let what the server has already answered (e.g. the unsubscribe confirmation) reach the client first
							time.Sleep(20 * time.Microsecond)
							switch f.Kind {
							case "drop-before":
								return fakeredis.Fault{Kind: fakeredis.DropBeforeExec}
							case "drop-after":
								return fakeredis.Fault{Kind: fakeredis.DropAfterExec}
							default:
								return fakeredis.Fault{Kind: fakeredis.DropMidReply}
							}
						}
					}
				}
				return fakeredis.Fault{}
			}
			mu.Lock()
			k := arrivals[uid]
			arrivals[uid] = k + 1
			mu.Unlock()
			if k >= len(cm.Plan) {
				return fakeredis.Fault{}
			}
			switch cm.Plan[k] {
			case "drop-before":
				return fakeredis.Fault{Kind: fakeredis.DropBeforeExec}
			case "drop-after":
				return fakeredis.Fault{Kind: fakeredis.DropAfterExec}
			case "drop-mid":
				return fakeredis.Fault{Kind: fakeredis.DropMidReply}
			case "loading":
				return fakeredis.Fault{Kind: fakeredis.ErrorReply, Err: "LOADING Redis is loading the dataset in memory"}
			case "err":
				return fakeredis.Fault{Kind: fakeredis.ErrorReply, Err: "ERR plain " + uid}
			case "hang":
				return fakeredis.Fault{Kind: fakeredis.Hang}
			}
			return fakeredis.Fault{}
		}
		srv.Hooks.Command = func(c *fakeredis.Conn, req int, argv []string) (resp.Value, bool) {
			// "nil" outcome: the command answers a null reply
			if cm, ok := byUID[fUIDOf(argv)]; ok {
				mu.Lock()
				k := arrivals[cm.UID] - 1
				mu.Unlock()
				if k >= 0 && k < len(cm.Plan) && cm.Plan[k] == "nil" {
					return resp.Null(), true
				}
			}
			return resp.Value{}, false
		}
		srv.Do("SET", "ck", "cv")
		opt := sim.Option(w, "127.0.0.1:6379")
		opt.ForceSingleClient = true
		opt.DisableRetry = !plan.Cfg.Retry
		opt.AlwaysPipelining = plan.Cfg.Pipelining
		opt.PipelineMultiplex = plan.Cfg.Multiplex
		opt.RingScaleEachConn = plan.Cfg.RingScale
		opt.BlockingPoolSize = plan.Cfg.PoolSize
		if ring {
			opt.WriteBufferEachConn = 1 << 20
		}
		if plan.Cfg.ConnLifetimeUs > 0 {
			opt.ConnLifetime = time.Duration(plan.Cfg.ConnLifetimeUs) * time.Microsecond
		}
		if plan.Cfg.KeepAliveUs > 0 {
			opt.Dialer.KeepAlive = time.Duration(plan.Cfg.KeepAliveUs) * time.Microsecond
			opt.ConnWriteTimeout = time.Duration(plan.Cfg.WriteTimeoutUs) * time.Microsecond
		}
		clock := sim.NewClock()
		opt.RetryDelay = func(attempts int, cmd rueidis.Completed, err error) time.Duration {
			d := -1
			if attempts-1 < len(plan.Cfg.RetryDelaysUs) {
				d = plan.Cfg.RetryDelaysUs[attempts-1]
			}
			mu.Lock()
			run.RetryCalls = append(run.RetryCalls, fRetryCall{Attempt: attempts, UID: fUIDOf(cmd.Commands()), Err: fmt.Sprint(err), DelayUs: d, AtUs: clock.Us()})
			mu.Unlock()
			if d < 0 {
				return -1
			}
			return time.Duration(d) * time.Microsecond
		}
		client, err := rueidis.NewClient(opt)
		if err != nil {
			panic(fmt.Sprintf("harness: NewClient failed: %v", err))
		}
		var closedAt int64 = -1
		var wg sync.WaitGroup
		for ci, ops := range plan.Callers {
			wg.Add(1)
			go func(ci int, ops []fOp) {
				defer wg.Done()
				for oi, op := range ops {
					time.Sleep(time.Duration(op.GapUs) * time.Microsecond)
					r := idx(ci, oi)
					ctx := context.Background()
					var cancel context.CancelFunc = func() {}
					switch {
					case op.DoneCtx:
						ctx, cancel = context.WithCancel(ctx)
						cancel()
					case op.DeadlineUs > 0 && op.CancelUs > 0:
						// a deadline far away and a manual cancel before it (a request context with a timeout that its caller abandons)
						ctx, cancel = context.WithTimeout(ctx, time.Duration(op.DeadlineUs)*time.Microsecond)
						time.AfterFunc(time.Duration(op.CancelUs)*time.Microsecond, cancel)
					case op.DeadlineUs > 0 && op.Cause:
						ctx, cancel = context.WithTimeoutCause(ctx, time.Duration(op.DeadlineUs)*time.Microsecond, errPlanCause)
					case op.DeadlineUs > 0:
						ctx, cancel = context.WithTimeout(ctx, time.Duration(op.DeadlineUs)*time.Microsecond)
					case op.CancelUs > 0 && op.Cause:
						var cc context.CancelCauseFunc
						ctx, cc = context.WithCancelCause(ctx)
						cancel = func() { cc(errPlanCause) }
						time.AfterFunc(time.Duration(op.CancelUs)*time.Microsecond, cancel)
					case op.CancelUs > 0:
						ctx, cancel = context.WithCancel(ctx)
						time.AfterFunc(time.Duration(op.CancelUs)*time.Microsecond, cancel)
					}
					build := func(c fCmd, block bool) rueidis.Completed {
						a := client.B().Arbitrary("VEXEC").Args(c.UID)
						var cmd rueidis.Completed
						switch {
						case block:
							cmd = a.Blocking()
						case c.Class == "read":
							cmd = a.ReadOnly()
						default:
							cmd = a.Build()
						}
						if c.Class == "retryable" {
							cmd = cmd.ToRetryable()
						}
						return cmd
					}
					mu.Lock()
					r.StartUs = clock.Us()
					if closedAt >= 0 {
						r.AfterCloseUs = r.StartUs - closedAt
					}
					mu.Unlock()
					switch op.Kind {
					case "do", "block":
						r.Results = []rueidis.RedisResult{client.Do(ctx, build(op.Cmds[0], op.Kind == "block"))}
					case "blockpipe":
						// a blocking command that the caller forces onto the shared pipeline connection
						r.Results = []rueidis.RedisResult{client.Do(ctx, build(op.Cmds[0], true).ToPipe())}
					case "multi":
						cmds := make(rueidis.Commands, len(op.Cmds))
						for i, c := range op.Cmds {
							cmds[i] = build(c, false)
						}
						r.Results = client.DoMulti(ctx, cmds...)
					case "cache":
						r.Results = []rueidis.RedisResult{client.DoCache(ctx, client.B().Get().Key(op.Key).Cache(), time.Minute)}
					case "receive":
						r.Err = client.Receive(ctx, client.B().Subscribe().Channel("ch").Build(), func(rueidis.PubSubMessage) {})
					case "unsub":
						// answered by a push (the confirmation) and the reply of the PING the client sends behind it
						r.Results = []rueidis.RedisResult{client.Do(ctx, client.B().Unsubscribe().Channel("ch").Build())}
					}
					mu.Lock()
					r.EndUs = clock.Us()
					r.Done = true
					mu.Unlock()
					cancel()
				}
			}(ci, ops)
		}
		for _, e := range plan.Events {
			e := e
			time.AfterFunc(time.Duration(e.AtUs)*time.Microsecond, func() {
				switch e.Kind {
				case "kill-conns":
					for _, c := range srv.LiveConns() {
						c.Kill()
					}
				case "server-down":
					srv.SetDown(true)
				case "server-up":
					srv.SetDown(false)
				case "close":
					mu.Lock()
					run.CloseAtUs = clock.Us()
					mu.Unlock()
					ok := sim.CallTimeout(long(time.Minute), client.Close)
					mu.Lock()
					run.CloseOK = ok
					run.CloseEndUs = clock.Us()
					closedAt = run.CloseEndUs
					mu.Unlock()
				}
			})
		}
		finished := sim.WaitTimeout(&wg, long(5*time.Minute))
		mu.Lock()
		if !finished {
			for _, r := range run.Results {
				if !r.Done {
					run.Pending++
					run.PendingOps = append(run.PendingOps, fmt.Sprintf("caller %d op %d (%s, started +%dus)", r.Caller, r.Op, plan.Callers[r.Caller][r.Op].Kind, r.StartUs))
				}
			}
		}
		closeCalled := run.CloseAtUs >= 0
		mu.Unlock()
		if !closeCalled {
			run.CloseOK = sim.CallTimeout(long(time.Minute), client.Close)
		} else {
			// Close may still be running: give it its minute
			time.Sleep(short(61 * time.Second))
		}
		w.Stop()
		run.Events = w.Snapshot()
		run.ExecLog = append([]fakeredis.ExecEntry(nil), srv.ExecLog...)
		for _, n := range w.Dials {
			run.Dials += n
		}
		if !finished {
			sim.WaitTimeout(&wg, short(time.Minute))
		}
		time.Sleep(short(5 * time.Second))
	}
	if !real {
		run.Res = bubble.Run(t, body)
		return
	}
	done := make(chan struct{})
	go func() { body(); close(done) }()
	select {
	case <-done:
	case <-time.After(4 * time.Minute):
		run.Res.Frozen = true
	}
	mu.Lock()
	defer mu.Unlock()
	cp := run
	cp.Results = append([]*fResult(nil), run.Results...)
	return cp
}

// ---- observed attempts of each command, from the server's event log

type fAttempt struct {
	Conn, Req               int
	Outcome                 string // ok loading err nil transport
	RecvAtUs                int64
	ArrAtUs                 int64 // when the request's last byte left the client (reached the server's socket)
	ConnKilled              bool  // the connection was dropped by the server side at some point: a logged reply may not have arrived
	ConnOpenUs, ConnCloseUs int64 // -1: still open at the end
}

func fAttempts(events []fakeredis.Event) map[string][]fAttempt {
	type key struct{ c, r int }
	out2 := map[string][]fAttempt{}
	idxOf := map[key][2]any{}
	for _, e := range events {
		uid := fUIDOf(e.Argv)
		if e.Kind == "recv" && uid != "" {
			out2[uid] = append(out2[uid], fAttempt{Conn: e.Conn, Req: e.Req, Outcome: "transport", RecvAtUs: e.At, ArrAtUs: e.Arr})
			idxOf[key{e.Conn, e.Req}] = [2]any{uid, len(out2[uid]) - 1}
		}
	}
	for _, e := range events {
		uid := fUIDOf(e.Argv)
		if uid == "" {
			continue
		}
		k, ok := idxOf[key{e.Conn, e.Req}]
		if !ok {
			continue
		}
		a := &out2[k[0].(string)][k[1].(int)]
		switch e.Kind {
		case "reply":
			switch {
			case strings.Contains(e.Note, "fault"):
				if strings.HasPrefix(e.Reply.S, "LOADING") {
					a.Outcome = "loading"
				} else {
					a.Outcome = "err"
				}
			case e.Reply.T == '_':
				a.Outcome = "nil"
			case e.Reply.T == '-':
				a.Outcome = "err"
			default:
				a.Outcome = "ok"
			}
		case "fault":
			a.Outcome = "transport"
		}
	}
	killed := map[int]bool{}
	for _, e := range events {
		if e.Kind == "close" && !strings.HasPrefix(e.Note, "peer closed") && e.Note != "world stopped" {
			killed[e.Conn] = true
		}
	}
	opened, closedAt := map[int]int64{}, map[int]int64{}
	for _, e := range events {
		switch e.Kind {
		case "open":
			opened[e.Conn] = e.At
		case "close":
			if _, dup := closedAt[e.Conn]; !dup {
				closedAt[e.Conn] = e.At
			}
		}
	}
	for _, as := range out2 {
		for i := range as {
			as[i].ConnKilled = killed[as[i].Conn]
			as[i].ConnOpenUs = opened[as[i].Conn]
			as[i].ConnCloseUs = -1
			if c, ok := closedAt[as[i].Conn]; ok {
				as[i].ConnCloseUs = c
			}
		}
	}
	return out2
}

func fExecCount(log []fakeredis.ExecEntry) map[string]int {
	m := map[string]int{}
	for _, e := range log {
		m[e.UID]++
	}
	return m
}

// ---- generators

var fOutcomes = []string{"ok", "drop-before", "drop-after", "drop-mid", "loading", "err", "nil"}

func genFaultPlan(rt *rapid.T, bias string) fPlan {
	var p fPlan
	p.Cfg = fCfg{
		Retry:      rapid.IntRange(0, 3).Draw(rt, "retry") != 0,
		Pipelining: rapid.Bool().Draw(rt, "pipelining"),
		Multiplex:  rapid.SampledFrom([]int{-1, -1, 0}).Draw(rt, "multiplex"),
		RingScale:  rapid.IntRange(2, 5).Draw(rt, "ringScale"),
		PoolSize:   rapid.IntRange(1, 3).Draw(rt, "poolSize"),
	}
	nd := rapid.IntRange(0, 4).Draw(rt, "retryDelays")
	for i := 0; i < nd; i++ {
		p.Cfg.RetryDelaysUs = append(p.Cfg.RetryDelaysUs, rapid.SampledFrom([]int{0, 0, 100, 2000, 50000, -1}).Draw(rt, "delay"))
	}
	if bias == "lifetime" || rapid.IntRange(0, 5).Draw(rt, "lifetime") == 0 {
		p.Cfg.ConnLifetimeUs = rapid.SampledFrom([]int{20000, 50000, 200000}).Draw(rt, "lifetimeUs")
	}
	uid := 0
	nc := rapid.IntRange(1, 5).Draw(rt, "callers")
	for c := 0; c < nc; c++ {
		no := rapid.IntRange(1, 4).Draw(rt, "ops")
		ops := make([]fOp, no)
		for i := range ops {
			op := fOp{GapUs: rapid.IntRange(0, 20000).Draw(rt, "gap"), Kind: rapid.SampledFrom([]string{"do", "do", "do", "multi", "cache", "block"}).Draw(rt, "kind")}
			mk := func() fCmd {
				uid++
				cm := fCmd{UID: "u" + strconv.Itoa(uid), Class: rapid.SampledFrom([]string{"write", "write", "read", "retryable"}).Draw(rt, "class"),
					LatUs: rapid.SampledFrom([]int{0, 100, 2000, 20000}).Draw(rt, "lat")}
				if bias == "lifetime" {
					cm.LatUs = rapid.SampledFrom([]int{0, 2000, 100000, 1200000, 2500000}).Draw(rt, "latLong")
				}
				n := rapid.IntRange(0, 3).Draw(rt, "planLen")
				for k := 0; k < n; k++ {
					cm.Plan = append(cm.Plan, rapid.SampledFrom(fOutcomes).Draw(rt, "outcome"))
				}
				return cm
			}
			switch op.Kind {
			case "do", "block":
				op.Cmds = []fCmd{mk()}
			case "multi":
				n := rapid.IntRange(1, 4).Draw(rt, "n")
				class := rapid.SampledFrom([]string{"write", "read", "mixed"}).Draw(rt, "multiClass")
				for k := 0; k < n; k++ {
					cm := mk()
					if class != "mixed" {
						cm.Class = class
					}
					if queueLabel() == "ring" && k > 0 {
						cm.LatUs = 0
					}
					op.Cmds = append(op.Cmds, cm)
				}
			case "cache":
				op.Key = "ck"
			}
			switch rapid.IntRange(0, 7).Draw(rt, "ctxKind") {
			case 0:
				op.DeadlineUs = rapid.SampledFrom([]int{500, 5000, 30000, 100000}).Draw(rt, "deadline")
			case 1:
				op.CancelUs = rapid.SampledFrom([]int{1, 500, 5000, 30000}).Draw(rt, "cancel")
			}
			if op.DeadlineUs > 0 || op.CancelUs > 0 {
				op.Cause = rapid.IntRange(0, 2).Draw(rt, "cause") == 0
			}
			ops[i] = op
		}
		p.Callers = append(p.Callers, ops)
	}
	if bias == "lifetime" && len(p.Callers) >= 2 && rapid.Bool().Draw(rt, "drainWindowShape") {
		// Directed shape: a pipelined connection whose lifetime ends while a slow command is in flight (so the
		// close has to wait for it) and a fault-free write issued by another caller shortly after the expiry.
		p.Cfg.Pipelining = true
		life := p.Cfg.ConnLifetimeUs
		slow := &p.Callers[0][0]
		slow.GapUs, slow.Kind, slow.Key, slow.DeadlineUs, slow.CancelUs = rapid.IntRange(0, 20).Draw(rt, "slowGap"), "do", "", 0, 0
		uid++
		slow.Cmds = []fCmd{{UID: "u" + strconv.Itoa(uid), Class: rapid.SampledFrom([]string{"read", "write"}).Draw(rt, "slowClass"),
			LatUs: life + rapid.SampledFrom([]int{30000, 300000}).Draw(rt, "slowExtra")}}
		late := &p.Callers[1][0]
		late.GapUs, late.Kind, late.Key, late.DeadlineUs, late.CancelUs = life+rapid.SampledFrom([]int{30, 1000, 20000}).Draw(rt, "lateAfter"), "do", "", 0, 0
		uid++
		late.Cmds = []fCmd{{UID: "u" + strconv.Itoa(uid), Class: "write"}}
	}
	ne := rapid.IntRange(0, 2).Draw(rt, "events")
	for i := 0; i < ne; i++ {
		p.Events = append(p.Events, fEvent{AtUs: rapid.IntRange(0, 60000).Draw(rt, "evAt"), Kind: rapid.SampledFrom([]string{"kill-conns", "kill-conns", "close"}).Draw(rt, "evKind")})
	}
	return p
}

func fKey(p fPlan) string {
	b, _ := json.Marshal(p)
	return string(b)
}

func fIsClosing(err error) bool { return errors.Is(err, rueidis.ErrClosing) }
