package props

import (
	"context"
	"encoding/json"
	"fmt"
	"math"
	"runtime/debug"
	"strconv"
	"strings"
	"testing"
	"time"

	"github.com/redis/rueidis"
	"github.com/redis/rueidis/rueidisprob"
	"pgregory.net/rapid"
	"verif/harness/sim"
	"verifkit/bubble"
	"verifkit/fakeredis"
	"verifkit/stat"
)

// ---------------------------------------------------------------------------------------------
// C35: Bloom filters never report a false negative.
//
// Black box: rueidisprob.NewBloomFilter on a real rueidis client that talks to the fake server,
// which runs the add / exists / reset / delete Lua scripts the filter sends (mini Lua interpreter).
// The model is the set of items added since the last Reset/Delete.
//
// Helpers with the prefix "prob" are shared with the C36 and C37 checks.
// ---------------------------------------------------------------------------------------------

const probAddr = "127.0.0.1:6379"

// probSizing is the textbook sizing of a Bloom filter, which is also what the constructors compute
// (numberOfBloomFilterBits / numberOfBloomFilterHashFunctions): m = ceil(-n ln p / (ln 2)^2) bits,
// k = round(m/n ln 2) hash functions, at least one (for n >= 2 and rates above roughly 0.71 the
// rounding alone would give none).
func probSizing(n uint, p float64) (m, k uint) {
	m = uint(math.Ceil(-float64(n) * math.Log(p) / math.Pow(math.Log(2), 2)))
	k = max(1, uint(math.Round(float64(m)/float64(n)*math.Log(2))))
	return
}

func probUnsupported(msg string) bool { return strings.Contains(msg, "FAKEREDIS-LUA-UNSUPPORTED") }

// probItems draws a pool of distinct item strings (stored quoted so that the saved case is
// lossless JSON): short ASCII words that share prefixes, the empty string, binary strings with
// NUL / CR LF / 0xff bytes, digits (look like indexes) and long items.
func probItems(rt *rapid.T, minN, maxN int) []string {
	n := rapid.IntRange(minN, maxN).Draw(rt, "nItems")
	gen := rapid.OneOf(
		rapid.StringMatching(`[ab]{0,3}`),
		rapid.StringMatching(`item[0-9]{1,2}`),
		rapid.StringMatching(`[0-9]{1,6}`),
		rapid.Map(rapid.SliceOfN(rapid.SampledFrom([]byte{0, 1, '\r', '\n', 0xff, 0x80, '{', '}', ' ', 'x'}), 0, 6), func(b []byte) string { return string(b) }),
		rapid.Map(rapid.IntRange(40, 300), func(l int) string { return strings.Repeat("L", l) }),
	)
	seen := map[string]bool{}
	var out []string
	for i := 0; i < n; i++ {
		s := gen.Draw(rt, "item")
		if i == 1 && rapid.IntRange(0, 3).Draw(rt, "emptyItem") == 0 {
			s = ""
		}
		for seen[s] {
			s += "'"
		}
		seen[s] = true
		out = append(out, strconv.Quote(s))
	}
	return out
}

func probUnquote(items []string) []string {
	out := make([]string, len(items))
	for i, q := range items {
		s, err := strconv.Unquote(q)
		if err != nil {
			panic("harness: bad quoted item " + q)
		}
		out[i] = s
	}
	return out
}

var probNs = []uint{1, 1, 2, 2, 3, 5, 7, 10, 10, 33, 100, 100, 1000, 10000, 100000, 1000000}
var probRates = []float64{0.5, 0.5, 0.9, 0.99, 0.999999, 0.75, 0.7, 0.62, 0.6, 0.3, 0.1, 0.01, 0.01, 0.001, 1e-6, 1e-9, 1e-9, 1e-15, 1e-60}

// huge filters: 10^8 .. 2^32 bits (bit indexes of 9 and 10 decimal digits); the fake server keeps
// bitmaps of that size sparse (kit/fakeredis/sparsebits.go)
var probHugeNs = []uint{10000000, 30000000, 100000000, 100000000, 200000000, 300000000, 440000000, 1000000000, 2000000000}
var probHugeRates = []float64{0.5, 0.3, 0.1, 0.05, 0.01, 0.01, 0.001, 1e-4, 1e-6, 1e-9}

const probMaxBits = 1 << 32 // the largest size NewBloomFilter accepts

// probConfig draws (n, rate) over the domain the constructors accept: 0 < rate < 1 (rate 1 and
// sizes above 2^32 bits are rejected by NewBloomFilter and drawn separately as "rejected"), rates
// close to 1 and close to 0, n from 1 to 2*10^9. hugeShare of 10 cases are filters between 10^8 bits
// and maxBits.
func probConfig(rt *rapid.T, maxBits uint, hugeShare int) (n uint, rate float64) {
	if v := rapid.IntRange(0, 9).Draw(rt, "huge"); maxBits > 100000000 && v%2 == 1 && v/2 < hugeShare {
		wantGiga := rapid.IntRange(0, 2).Draw(rt, "giga") == 1
		for try := 0; try < 40; try++ {
			n = rapid.SampledFrom(probHugeNs).Draw(rt, "hugeN")
			rate = rapid.SampledFrom(probHugeRates).Draw(rt, "hugeRate")
			if m, _ := probSizing(n, rate); m > 100000000 && m <= maxBits && (!wantGiga || m > 1000000000) {
				return n, rate
			}
		}
		return 100000000, 0.01 // 958,505,838 bits
	}
	for try := 0; ; try++ {
		n = rapid.SampledFrom(probNs).Draw(rt, "n")
		switch rapid.IntRange(0, 9).Draw(rt, "rateKind") {
		case 0, 1:
			rate = rapid.Float64Range(1e-12, 0.999999999).Draw(rt, "rateUniform")
		case 2:
			rate = 1 - math.Pow(10, -float64(rapid.IntRange(1, 15).Draw(rt, "nines")))
		case 3:
			rate = math.Pow(10, -float64(rapid.IntRange(1, 300).Draw(rt, "exp")))
		default:
			rate = rapid.SampledFrom(probRates).Draw(rt, "rate")
		}
		if rate <= 0 || rate >= 1 {
			continue
		}
		m, k := probSizing(n, rate)
		if m == 0 || m > maxBits || k > 1100 {
			if try > 20 {
				return 10, 0.01
			}
			continue
		}
		return n, rate
	}
}

type c35Op struct {
	Kind string `json:"kind"` // add addmulti exists existsmulti count reset delete
	Keys []int  `json:"keys,omitempty"`
}

type c35Plan struct {
	N        uint     `json:"n"`
	Rate     float64  `json:"rate"`
	ReadOnly bool     `json:"read_only"`
	Rejected string   `json:"rejected,omitempty"` // configuration outside the accepted domain: only the constructor is called
	Items    []string `json:"items"`              // Go-quoted
	Ops      []c35Op  `json:"ops"`
}

type c35Obs struct {
	Done    bool
	Err     string
	Bools   []bool // exists: 1 element; existsmulti: the returned slice
	Singles []bool // existsmulti: Exists of every input key right after, same state
	SingleE string
	Count   uint64
}

func genC35Plan(rt *rapid.T) c35Plan {
	var p c35Plan
	if rapid.IntRange(0, 24).Draw(rt, "rejected") == 13 {
		p.Rejected = rapid.SampledFrom([]string{"rate=1", "rate=0", "rate<0", "rate>1", "n=0", "too-large"}).Draw(rt, "rejKind")
		p.N, p.Rate = 10, 0.01
		switch p.Rejected {
		case "rate=1":
			p.Rate = 1
		case "rate=0":
			p.Rate = 0
		case "rate<0":
			p.Rate = -0.5
		case "rate>1":
			p.Rate = 1.5
		case "n=0":
			p.N = 0
		case "too-large":
			p.N, p.Rate = 1000000000, 1e-9
		}
		p.Items = []string{`"a"`}
		return p
	}
	p.N, p.Rate = probConfig(rt, probMaxBits, 4)
	m, k := probSizing(p.N, p.Rate)
	p.ReadOnly = rapid.IntRange(0, 2).Draw(rt, "readOnly") == 0
	maxItems, maxOps, maxMulti := 50, 30, 8
	if cost := uint64(m/8+64) * uint64(k); m/8 <= 1<<16 && cost > 1<<16 {
		// up to 64 KiB the fake keeps the bitmap as a byte string and copies it on every bit access:
		// short histories for the expensive ones (larger bitmaps are sparse and cheap)
		maxItems, maxOps, maxMulti = 6, 6, 3
	} else if k > 64 {
		maxItems, maxOps, maxMulti = 10, 10, 3
	}
	p.Items = probItems(rt, 1, maxItems)
	nOps := rapid.IntRange(1, maxOps).Draw(rt, "nOps")
	kinds := []string{"add", "add", "add", "addmulti", "addmulti", "exists", "exists", "exists", "existsmulti", "existsmulti", "existsmulti", "count", "count", "count", "add", "exists", "existsmulti", "reset", "delete"}
	var added []int // queries prefer items the history has added (that is where the property speaks)
	anyKey := func() int { return rapid.IntRange(0, len(p.Items)-1).Draw(rt, "key") }
	for i := 0; i < nOps; i++ {
		op := c35Op{Kind: rapid.SampledFrom(kinds).Draw(rt, "kind")}
		key := anyKey
		if strings.HasPrefix(op.Kind, "exists") {
			key = func() int {
				if len(added) > 0 && rapid.IntRange(0, 3).Draw(rt, "queryAdded") != 2 {
					return added[rapid.IntRange(0, len(added)-1).Draw(rt, "addedKey")]
				}
				return anyKey()
			}
		}
		switch op.Kind {
		case "add", "exists":
			op.Keys = []int{key()}
		case "addmulti", "existsmulti":
			nk := rapid.IntRange(0, maxMulti).Draw(rt, "nKeys")
			op.Keys = []int{}
			for j := 0; j < nk; j++ {
				if j > 0 && rapid.IntRange(0, 4).Draw(rt, "dup") == 0 {
					op.Keys = append(op.Keys, op.Keys[rapid.IntRange(0, j-1).Draw(rt, "dupOf")])
				} else {
					op.Keys = append(op.Keys, key())
				}
			}
		}
		switch op.Kind {
		case "add", "addmulti":
			added = append(added, op.Keys...)
		case "reset", "delete":
			added = nil
		}
		p.Ops = append(p.Ops, op)
	}
	return p
}

// probClient builds the single client every probabilistic-filter check uses.
func probClient(w *fakeredis.World) rueidis.Client {
	opt := sim.Option(w, probAddr)
	opt.ForceSingleClient = true
	opt.DisableCache = true
	client, err := rueidis.NewClient(opt)
	if err != nil {
		panic(fmt.Sprintf("harness: NewClient failed: %v", err))
	}
	return client
}

func errText(err error) string {
	if err == nil {
		return ""
	}
	if s := err.Error(); s != "" {
		return s
	}
	return "(empty error text)"
}

func c35Run(t *testing.T, plan c35Plan) (res bubble.Result, ctorErr string, obs []c35Obs, panicked string) {
	obs = make([]c35Obs, len(plan.Ops))
	items := probUnquote(plan.Items)
	res = bubble.Run(t, func() {
		w := fakeredis.NewWorld()
		w.NewServer(probAddr)
		client := probClient(w)
		func() {
			defer func() {
				if p := recover(); p != nil {
					panicked = fmt.Sprintf("%v\n%s", p, debug.Stack())
				}
			}()
			var opts []rueidisprob.BloomFilterOptionFunc
			if plan.ReadOnly {
				opts = append(opts, rueidisprob.WithEnableReadOperation(true))
			}
			bf, err := rueidisprob.NewBloomFilter(client, "bf", plan.N, plan.Rate, opts...)
			if err != nil {
				ctorErr = errText(err)
				return
			}
			if plan.Rejected != "" {
				return
			}
			ctx := context.Background()
			keysOf := func(op c35Op) []string {
				ks := make([]string, len(op.Keys))
				for i, k := range op.Keys {
					ks[i] = items[k]
				}
				return ks
			}
			for i, op := range plan.Ops {
				o := &obs[i]
				var err error
				switch op.Kind {
				case "add":
					err = bf.Add(ctx, items[op.Keys[0]])
				case "addmulti":
					err = bf.AddMulti(ctx, keysOf(op))
				case "exists":
					var b bool
					b, err = bf.Exists(ctx, items[op.Keys[0]])
					o.Bools = []bool{b}
				case "existsmulti":
					ks := keysOf(op)
					o.Bools, err = bf.ExistsMulti(ctx, ks)
					for _, k := range ks {
						b, e := bf.Exists(ctx, k)
						o.Singles = append(o.Singles, b)
						if e != nil && o.SingleE == "" {
							o.SingleE = errText(e)
						}
					}
				case "count":
					o.Count, err = bf.Count(ctx)
				case "reset":
					err = bf.Reset(ctx)
				case "delete":
					err = bf.Delete(ctx)
				}
				o.Err = errText(err)
				o.Done = true
			}
		}()
		sim.CallTimeout(time.Minute, client.Close)
		w.Stop()
		time.Sleep(5 * time.Second)
	})
	return
}

func c35Check(c *stat.Collector, rt stat.Fataler, plan c35Plan, res bubble.Result, ctorErr string, obs []c35Obs, panicked string) (nt bool, classes []string, inconclusive bool) {
	cls := map[string]bool{}
	defer func() {
		for k := range cls {
			classes = append(classes, k)
		}
	}()
	if panicked != "" || res.Panic != nil {
		c.Fail(rt, "C35.no-panic", panicked+res.String(), plan)
	}
	if res.Deadlock {
		c.Fail(rt, "C35.no-hang", res.String(), plan)
	}
	if plan.Rejected != "" {
		cls["rejected-config"] = true
		if ctorErr == "" {
			c.Fail(rt, "C35.constructor-validates", fmt.Sprintf("NewBloomFilter accepted n=%d rate=%v although the documented domain excludes it (%s)", plan.N, plan.Rate, plan.Rejected), plan)
		}
		return false, nil, false
	}
	m, k := probSizing(plan.N, plan.Rate)
	if ctorErr != "" {
		c.Fail(rt, "C35.accepted-domain", fmt.Sprintf("NewBloomFilter(n=%d, rate=%v) (m=%d bits, k=%d) failed: %s", plan.N, plan.Rate, m, k, ctorErr), plan)
	}
	for i, o := range obs {
		if probUnsupported(o.Err) || probUnsupported(o.SingleE) {
			return false, nil, true
		}
		if !o.Done {
			c.Fail(rt, "C35.no-hang", fmt.Sprintf("op %d (%s) never returned: %s", i, plan.Ops[i].Kind, res), plan)
		}
	}
	cfg := fmt.Sprintf("n=%d rate=%v (m=%d bits, k=%d hash functions)", plan.N, plan.Rate, m, k)
	present := map[int]bool{}
	// batch composition: which item followed the item in the call that added it / that queries it
	// (-1: it was the last or only one)
	addSucc := map[int]map[int]bool{}
	otherBatch := false
	succ := func(keys []int, j int) int {
		if j+1 < len(keys) {
			return keys[j+1]
		}
		return -1
	}
	lastCount, haveCount := uint64(0), false
	queriedPresent, mixed, readd, wasReset := false, false, false, false
	for i, op := range plan.Ops {
		o := obs[i]
		where := fmt.Sprintf("op %d (%s %v) with %s", i, op.Kind, op.Keys, cfg)
		if o.Err != "" || o.SingleE != "" {
			c.Fail(rt, "C35.no-error", fmt.Sprintf("%s failed: %s%s (no error is documented for this call against a healthy server)", where, o.Err, o.SingleE), plan)
		}
		switch op.Kind {
		case "add", "addmulti":
			for j, key := range op.Keys {
				present[key] = true
				if addSucc[key] == nil {
					addSucc[key] = map[int]bool{}
				}
				addSucc[key][succ(op.Keys, j)] = true
			}
			if wasReset && len(op.Keys) > 0 {
				readd = true
			}
			if len(op.Keys) == 0 {
				cls["empty-multi"] = true
			}
			for a := range op.Keys {
				for b := 0; b < a; b++ {
					if op.Keys[a] == op.Keys[b] {
						cls["dup-in-addmulti"] = true
					}
				}
			}
		case "exists":
			if present[op.Keys[0]] {
				queriedPresent = true
				if !addSucc[op.Keys[0]][-1] {
					otherBatch = true
				}
				if !o.Bools[0] {
					c.Fail(rt, "C35.no-false-negative", fmt.Sprintf("%s: item %s was added and not reset/deleted since, Exists reports false", where, plan.Items[op.Keys[0]]), plan)
				}
			}
		case "existsmulti":
			if len(op.Keys) == 0 {
				cls["empty-multi"] = true
			}
			if len(o.Bools) != len(op.Keys) {
				c.Fail(rt, "C35.positional", fmt.Sprintf("%s: ExistsMulti returned %d answers for %d keys", where, len(o.Bools), len(op.Keys)), plan)
			}
			np := 0
			for j, key := range op.Keys {
				if present[key] {
					np++
					queriedPresent = true
					if !addSucc[key][succ(op.Keys, j)] || !addSucc[key][-1] {
						otherBatch = true // the Exists right after asks for the item alone
					}
					if !o.Bools[j] {
						c.Fail(rt, "C35.no-false-negative", fmt.Sprintf("%s: item %s (position %d) was added and not reset/deleted since, ExistsMulti reports false there: %v", where, plan.Items[key], j, o.Bools), plan)
					}
				}
				// "answering per input key in order": position j is the answer for key j, i.e. what Exists
				// says about that key in the same state
				if o.Bools[j] != o.Singles[j] {
					c.Fail(rt, "C35.positional", fmt.Sprintf("%s: position %d (item %s) is %v but Exists of the same item in the same state is %v: %v vs %v", where, j, plan.Items[key], o.Bools[j], o.Singles[j], o.Bools, o.Singles), plan)
				}
			}
			if np > 0 && np < len(op.Keys) {
				mixed = true
			}
		case "count":
			if haveCount && o.Count < lastCount {
				c.Fail(rt, "C35.count-monotonic", fmt.Sprintf("%s: Count went from %d to %d without Reset or Delete", where, lastCount, o.Count), plan)
			}
			lastCount, haveCount = o.Count, true
		case "reset", "delete":
			present = map[int]bool{}
			addSucc = map[int]map[int]bool{}
			haveCount = false
			wasReset = true
		}
	}
	for _, q := range plan.Items {
		if s, _ := strconv.Unquote(q); s == "" {
			cls["empty-item"] = true
		} else if strings.ContainsAny(s, "\x00\r\n\xff\x80") {
			cls["binary-item"] = true
		}
	}
	cls[map[bool]string{true: "exists-readonly-script", false: "exists-write-script"}[plan.ReadOnly]] = true
	switch {
	case k == 1:
		cls["k=1"] = true
	case k <= 8:
		cls["k=2..8"] = true
	case k <= 64:
		cls["k=9..64"] = true
	default:
		cls["k>64"] = true
	}
	switch {
	case m <= 8:
		cls["m<=8bits"] = true
	case m <= 1024:
		cls["m<=1024bits"] = true
	case m <= 1<<20:
		cls["m<=2^20bits"] = true
	case m <= 100000000:
		cls["m<=10^8bits"] = true
	case m <= 1000000000:
		cls["m>10^8bits(9-digit-indexes)"] = true
	default:
		cls["m>10^9bits(10-digit-indexes)"] = true
	}
	if otherBatch {
		cls["queried-in-other-batch-composition-than-added"] = true
		if m > 100000000 {
			cls["queried-in-other-batch-composition-than-added,m>10^8bits"] = true
		}
	}
	if plan.Rate >= 0.9 {
		cls["rate>=0.9"] = true
	}
	if plan.Rate <= 1e-9 {
		cls["rate<=1e-9"] = true
	}
	if queriedPresent {
		cls["queried-added-item"] = true
	}
	if mixed {
		cls["multi-mixes-added-and-unknown"] = true
	}
	if readd {
		cls["add-after-reset-or-delete"] = true
	}
	return queriedPresent, nil, false
}

func TestVerif_C35_Bloom(t *testing.T) {
	c := stat.For("C35", "bloom").Rule("single client in a synctest bubble against the fake server running the filter's real Lua scripts; (n, rate) over the accepted domain: n in 1..2*10^9, rate uniform in (0,1), 1-10^-j (j<=15), 10^-j (j<=300) and a list with 0.5/0.9/0.99/0.999999/1e-9, 40% of the cases filters of 10^8..2^32 bits (n 10^7..2*10^9; bit indexes of 9 and 10 digits; the fake keeps such bitmaps sparse), with and without WithEnableReadOperation, plus 4% configurations outside the domain (constructor only); histories of 1-30 ops from {Add, AddMulti (duplicates, empty), Exists, ExistsMulti, Count, Reset, Delete} over a pool of 1-50 distinct items (empty, binary, long, digit strings); oracle: model set of items added since the last Reset/Delete => Exists true and the matching ExistsMulti position true, len(ExistsMulti)==len(input), every position equals Exists of that key in the same state, Count never decreases between Reset/Delete, no error, no panic, no hang; non-trivial = the history queries an item that was added before and is still in the model")
	defer c.Flush()
	rapid.Check(t, func(rt *rapid.T) {
		plan := genC35Plan(rt)
		saveCase("c35", plan)
		res, ctorErr, obs, panicked := c35Run(t, plan)
		if res.Frozen {
			c.Inconclusive("virtual-clock-freeze")
			return
		}
		nt, classes, inconclusive := c35Check(c, rt, plan, res, ctorErr, obs, panicked)
		if inconclusive {
			c.Inconclusive("lua-unsupported")
			return
		}
		key, _ := json.Marshal(plan)
		c.Eval(nt, string(key), classes...)
		c.Sample(nt, func() any { return plan })
	})
}
