package props

import (
	"context"
	"errors"
	"fmt"
	"reflect"
	"strconv"
	"strings"
	"testing"
	"time"

	"github.com/redis/rueidis"
	"github.com/redis/rueidis/mock"
	"github.com/redis/rueidis/rueidiscompat"
	"pgregory.net/rapid"
	"verifkit/stat"
)

// ---------------------------------------------------------------------------------------------
// C41: Pipeline.Exec returns each queued command's result in queue order together with the first
// error. TxPipeline.Exec sends MULTI, the queued commands in order and EXEC as one batch, maps each
// EXEC element to its command and reports TxFailedErr when WATCH aborts the transaction, and
// Discard drops every queued command.
//
// The adapter runs on a hand-written rueidis.Client stand-in whose replies are bound to the
// command (through a unique marker argument), not to the position, as a server would do.
// ---------------------------------------------------------------------------------------------

var c41Ctx = context.Background()

type c41Q func(p rueidiscompat.Pipeliner) rueidiscompat.Cmder

type c41Method struct {
	Name string
	Kind string
	Gen  func(rt *rapid.T, k string) c41Q
}

func c41S(rt *rapid.T) string {
	return rapid.SampledFrom([]string{"", "v", "hello world", "\x00\xff", "10", "-3.5"}).Draw(rt, "s")
}
func c41I(rt *rapid.T) int64 {
	return rapid.SampledFrom([]int64{0, 1, -1, 7, 1 << 40, -1 << 40}).Draw(rt, "i")
}
func c41F(rt *rapid.T) float64 {
	return rapid.SampledFrom([]float64{0, 1.5, -2.25, 1e10, 3}).Draw(rt, "f")
}
func c41D(rt *rapid.T) time.Duration {
	return rapid.SampledFrom([]time.Duration{time.Second, 90 * time.Second, 1500 * time.Millisecond, time.Hour}).Draw(rt, "d")
}

type c41P = rueidiscompat.Pipeliner
type c41C = rueidiscompat.Cmder

func c41Table() []c41Method {
	m := func(name, kind string, gen func(rt *rapid.T, k string) c41Q) c41Method {
		return c41Method{name, kind, gen}
	}
	return []c41Method{
		// StatusCmd
		m("Set", "status", func(rt *rapid.T, k string) c41Q {
			v, d := c41S(rt), rapid.SampledFrom([]time.Duration{0, time.Second, 1500 * time.Millisecond, rueidiscompat.KeepTTL}).Draw(rt, "exp")
			return func(p c41P) c41C { return p.Set(c41Ctx, k, v, d) }
		}),
		m("SetEX", "status", func(rt *rapid.T, k string) c41Q {
			v, d := c41S(rt), c41D(rt)
			return func(p c41P) c41C { return p.SetEX(c41Ctx, k, v, d) }
		}),
		m("Rename", "status", func(rt *rapid.T, k string) c41Q { return func(p c41P) c41C { return p.Rename(c41Ctx, k, k+"-new") } }),
		m("LSet", "status", func(rt *rapid.T, k string) c41Q {
			i, v := c41I(rt), c41S(rt)
			return func(p c41P) c41C { return p.LSet(c41Ctx, k, i, v) }
		}),
		m("LTrim", "status", func(rt *rapid.T, k string) c41Q {
			a, b := c41I(rt), c41I(rt)
			return func(p c41P) c41C { return p.LTrim(c41Ctx, k, a, b) }
		}),
		m("Type", "status", func(rt *rapid.T, k string) c41Q { return func(p c41P) c41C { return p.Type(c41Ctx, k) } }),
		m("MSet", "status", func(rt *rapid.T, k string) c41Q {
			v := c41S(rt)
			return func(p c41P) c41C { return p.MSet(c41Ctx, k, v) }
		}),
		m("PFMerge", "status", func(rt *rapid.T, k string) c41Q { return func(p c41P) c41C { return p.PFMerge(c41Ctx, k, k+"-src") } }),
		// StringCmd
		m("Get", "string", func(rt *rapid.T, k string) c41Q { return func(p c41P) c41C { return p.Get(c41Ctx, k) } }),
		m("GetSet", "string", func(rt *rapid.T, k string) c41Q {
			v := c41S(rt)
			return func(p c41P) c41C { return p.GetSet(c41Ctx, k, v) }
		}),
		m("GetDel", "string", func(rt *rapid.T, k string) c41Q { return func(p c41P) c41C { return p.GetDel(c41Ctx, k) } }),
		m("GetRange", "string", func(rt *rapid.T, k string) c41Q {
			a, b := c41I(rt), c41I(rt)
			return func(p c41P) c41C { return p.GetRange(c41Ctx, k, a, b) }
		}),
		m("HGet", "string", func(rt *rapid.T, k string) c41Q {
			f := c41S(rt)
			return func(p c41P) c41C { return p.HGet(c41Ctx, k, f) }
		}),
		m("LPop", "string", func(rt *rapid.T, k string) c41Q { return func(p c41P) c41C { return p.LPop(c41Ctx, k) } }),
		m("RPop", "string", func(rt *rapid.T, k string) c41Q { return func(p c41P) c41C { return p.RPop(c41Ctx, k) } }),
		m("LIndex", "string", func(rt *rapid.T, k string) c41Q {
			i := c41I(rt)
			return func(p c41P) c41C { return p.LIndex(c41Ctx, k, i) }
		}),
		m("SPop", "string", func(rt *rapid.T, k string) c41Q { return func(p c41P) c41C { return p.SPop(c41Ctx, k) } }),
		m("SRandMember", "string", func(rt *rapid.T, k string) c41Q { return func(p c41P) c41C { return p.SRandMember(c41Ctx, k) } }),
		m("RPopLPush", "string", func(rt *rapid.T, k string) c41Q { return func(p c41P) c41C { return p.RPopLPush(c41Ctx, k, k+"-dst") } }),
		m("ObjectEncoding", "string", func(rt *rapid.T, k string) c41Q { return func(p c41P) c41C { return p.ObjectEncoding(c41Ctx, k) } }),
		m("Echo", "string", func(rt *rapid.T, k string) c41Q { return func(p c41P) c41C { return p.Echo(c41Ctx, k) } }),
		// IntCmd
		m("Incr", "int", func(rt *rapid.T, k string) c41Q { return func(p c41P) c41C { return p.Incr(c41Ctx, k) } }),
		m("IncrBy", "int", func(rt *rapid.T, k string) c41Q {
			i := c41I(rt)
			return func(p c41P) c41C { return p.IncrBy(c41Ctx, k, i) }
		}),
		m("Decr", "int", func(rt *rapid.T, k string) c41Q { return func(p c41P) c41C { return p.Decr(c41Ctx, k) } }),
		m("DecrBy", "int", func(rt *rapid.T, k string) c41Q {
			i := c41I(rt)
			return func(p c41P) c41C { return p.DecrBy(c41Ctx, k, i) }
		}),
		m("Append", "int", func(rt *rapid.T, k string) c41Q {
			v := c41S(rt)
			return func(p c41P) c41C { return p.Append(c41Ctx, k, v) }
		}),
		m("StrLen", "int", func(rt *rapid.T, k string) c41Q { return func(p c41P) c41C { return p.StrLen(c41Ctx, k) } }),
		m("Del", "int", func(rt *rapid.T, k string) c41Q { return func(p c41P) c41C { return p.Del(c41Ctx, k, k+"-2") } }),
		m("Exists", "int", func(rt *rapid.T, k string) c41Q { return func(p c41P) c41C { return p.Exists(c41Ctx, k) } }),
		m("Unlink", "int", func(rt *rapid.T, k string) c41Q { return func(p c41P) c41C { return p.Unlink(c41Ctx, k) } }),
		m("Touch", "int", func(rt *rapid.T, k string) c41Q { return func(p c41P) c41C { return p.Touch(c41Ctx, k) } }),
		m("HSet", "int", func(rt *rapid.T, k string) c41Q {
			f, v := c41S(rt), c41S(rt)
			return func(p c41P) c41C { return p.HSet(c41Ctx, k, f, v) }
		}),
		m("HDel", "int", func(rt *rapid.T, k string) c41Q {
			f := c41S(rt)
			return func(p c41P) c41C { return p.HDel(c41Ctx, k, f) }
		}),
		m("HLen", "int", func(rt *rapid.T, k string) c41Q { return func(p c41P) c41C { return p.HLen(c41Ctx, k) } }),
		m("HIncrBy", "int", func(rt *rapid.T, k string) c41Q {
			f, i := c41S(rt), c41I(rt)
			return func(p c41P) c41C { return p.HIncrBy(c41Ctx, k, f, i) }
		}),
		m("LPush", "int", func(rt *rapid.T, k string) c41Q {
			a, b := c41S(rt), c41I(rt)
			return func(p c41P) c41C { return p.LPush(c41Ctx, k, a, b) }
		}),
		m("RPush", "int", func(rt *rapid.T, k string) c41Q {
			a := c41S(rt)
			return func(p c41P) c41C { return p.RPush(c41Ctx, k, a) }
		}),
		m("LLen", "int", func(rt *rapid.T, k string) c41Q { return func(p c41P) c41C { return p.LLen(c41Ctx, k) } }),
		m("LRem", "int", func(rt *rapid.T, k string) c41Q {
			i, v := c41I(rt), c41S(rt)
			return func(p c41P) c41C { return p.LRem(c41Ctx, k, i, v) }
		}),
		m("SAdd", "int", func(rt *rapid.T, k string) c41Q {
			a, b := c41S(rt), c41S(rt)
			return func(p c41P) c41C { return p.SAdd(c41Ctx, k, a, b) }
		}),
		m("SRem", "int", func(rt *rapid.T, k string) c41Q {
			a := c41S(rt)
			return func(p c41P) c41C { return p.SRem(c41Ctx, k, a) }
		}),
		m("SCard", "int", func(rt *rapid.T, k string) c41Q { return func(p c41P) c41C { return p.SCard(c41Ctx, k) } }),
		m("ZAdd", "int", func(rt *rapid.T, k string) c41Q {
			f, s := c41F(rt), c41S(rt)
			return func(p c41P) c41C { return p.ZAdd(c41Ctx, k, rueidiscompat.Z{Score: f, Member: s}) }
		}),
		m("ZCard", "int", func(rt *rapid.T, k string) c41Q { return func(p c41P) c41C { return p.ZCard(c41Ctx, k) } }),
		m("ZCount", "int", func(rt *rapid.T, k string) c41Q {
			return func(p c41P) c41C { return p.ZCount(c41Ctx, k, "-inf", "+inf") }
		}),
		m("ZRem", "int", func(rt *rapid.T, k string) c41Q {
			a := c41S(rt)
			return func(p c41P) c41C { return p.ZRem(c41Ctx, k, a) }
		}),
		m("ZRank", "int", func(rt *rapid.T, k string) c41Q {
			a := c41S(rt)
			return func(p c41P) c41C { return p.ZRank(c41Ctx, k, a) }
		}),
		m("PFAdd", "int", func(rt *rapid.T, k string) c41Q {
			a := c41S(rt)
			return func(p c41P) c41C { return p.PFAdd(c41Ctx, k, a) }
		}),
		m("PFCount", "int", func(rt *rapid.T, k string) c41Q { return func(p c41P) c41C { return p.PFCount(c41Ctx, k) } }),
		m("SetRange", "int", func(rt *rapid.T, k string) c41Q {
			v := c41S(rt)
			return func(p c41P) c41C { return p.SetRange(c41Ctx, k, 3, v) }
		}),
		m("GetBit", "int", func(rt *rapid.T, k string) c41Q { return func(p c41P) c41C { return p.GetBit(c41Ctx, k, 9) } }),
		m("SetBit", "int", func(rt *rapid.T, k string) c41Q { return func(p c41P) c41C { return p.SetBit(c41Ctx, k, 9, 1) } }),
		m("Publish", "int", func(rt *rapid.T, k string) c41Q {
			v := c41S(rt)
			return func(p c41P) c41C { return p.Publish(c41Ctx, k, v) }
		}),
		m("XLen", "int", func(rt *rapid.T, k string) c41Q { return func(p c41P) c41C { return p.XLen(c41Ctx, k) } }),
		m("ZRemRangeByRank", "int", func(rt *rapid.T, k string) c41Q {
			a, b := c41I(rt), c41I(rt)
			return func(p c41P) c41C { return p.ZRemRangeByRank(c41Ctx, k, a, b) }
		}),
		m("SInterStore", "int", func(rt *rapid.T, k string) c41Q {
			return func(p c41P) c41C { return p.SInterStore(c41Ctx, k, k+"-a", k+"-b") }
		}),
		// BoolCmd
		m("SetNX", "bool", func(rt *rapid.T, k string) c41Q {
			v := c41S(rt)
			return func(p c41P) c41C { return p.SetNX(c41Ctx, k, v, 0) }
		}),
		m("Expire", "bool", func(rt *rapid.T, k string) c41Q {
			d := c41D(rt)
			return func(p c41P) c41C { return p.Expire(c41Ctx, k, d) }
		}),
		m("ExpireAt", "bool", func(rt *rapid.T, k string) c41Q {
			return func(p c41P) c41C { return p.ExpireAt(c41Ctx, k, time.Unix(1900000000, 0)) }
		}),
		m("PExpire", "bool", func(rt *rapid.T, k string) c41Q {
			d := c41D(rt)
			return func(p c41P) c41C { return p.PExpire(c41Ctx, k, d) }
		}),
		m("Persist", "bool", func(rt *rapid.T, k string) c41Q { return func(p c41P) c41C { return p.Persist(c41Ctx, k) } }),
		m("HSetNX", "bool", func(rt *rapid.T, k string) c41Q {
			f, v := c41S(rt), c41S(rt)
			return func(p c41P) c41C { return p.HSetNX(c41Ctx, k, f, v) }
		}),
		m("HExists", "bool", func(rt *rapid.T, k string) c41Q {
			f := c41S(rt)
			return func(p c41P) c41C { return p.HExists(c41Ctx, k, f) }
		}),
		m("SIsMember", "bool", func(rt *rapid.T, k string) c41Q {
			v := c41S(rt)
			return func(p c41P) c41C { return p.SIsMember(c41Ctx, k, v) }
		}),
		m("SMove", "bool", func(rt *rapid.T, k string) c41Q {
			v := c41S(rt)
			return func(p c41P) c41C { return p.SMove(c41Ctx, k, k+"-dst", v) }
		}),
		m("RenameNX", "bool", func(rt *rapid.T, k string) c41Q { return func(p c41P) c41C { return p.RenameNX(c41Ctx, k, k+"-new") } }),
		m("Move", "bool", func(rt *rapid.T, k string) c41Q { return func(p c41P) c41C { return p.Move(c41Ctx, k, 3) } }),
		// FloatCmd
		m("IncrByFloat", "float", func(rt *rapid.T, k string) c41Q {
			f := c41F(rt)
			return func(p c41P) c41C { return p.IncrByFloat(c41Ctx, k, f) }
		}),
		m("HIncrByFloat", "float", func(rt *rapid.T, k string) c41Q {
			s, f := c41S(rt), c41F(rt)
			return func(p c41P) c41C { return p.HIncrByFloat(c41Ctx, k, s, f) }
		}),
		m("ZScore", "float", func(rt *rapid.T, k string) c41Q {
			s := c41S(rt)
			return func(p c41P) c41C { return p.ZScore(c41Ctx, k, s) }
		}),
		m("ZIncrBy", "float", func(rt *rapid.T, k string) c41Q {
			s, f := c41S(rt), c41F(rt)
			return func(p c41P) c41C { return p.ZIncrBy(c41Ctx, k, f, s) }
		}),
		// SliceCmd
		m("MGet", "slice", func(rt *rapid.T, k string) c41Q { return func(p c41P) c41C { return p.MGet(c41Ctx, k, k+"-2") } }),
		m("HMGet", "slice", func(rt *rapid.T, k string) c41Q {
			a, b := c41S(rt), c41S(rt)
			return func(p c41P) c41C { return p.HMGet(c41Ctx, k, a, b) }
		}),
		// StringSliceCmd
		m("LRange", "strslice", func(rt *rapid.T, k string) c41Q {
			a, b := c41I(rt), c41I(rt)
			return func(p c41P) c41C { return p.LRange(c41Ctx, k, a, b) }
		}),
		m("SMembers", "strslice", func(rt *rapid.T, k string) c41Q { return func(p c41P) c41C { return p.SMembers(c41Ctx, k) } }),
		m("HKeys", "strslice", func(rt *rapid.T, k string) c41Q { return func(p c41P) c41C { return p.HKeys(c41Ctx, k) } }),
		m("HVals", "strslice", func(rt *rapid.T, k string) c41Q { return func(p c41P) c41C { return p.HVals(c41Ctx, k) } }),
		m("ZRange", "strslice", func(rt *rapid.T, k string) c41Q {
			a, b := c41I(rt), c41I(rt)
			return func(p c41P) c41C { return p.ZRange(c41Ctx, k, a, b) }
		}),
		m("ZRevRange", "strslice", func(rt *rapid.T, k string) c41Q {
			a, b := c41I(rt), c41I(rt)
			return func(p c41P) c41C { return p.ZRevRange(c41Ctx, k, a, b) }
		}),
		m("Keys", "strslice", func(rt *rapid.T, k string) c41Q { return func(p c41P) c41C { return p.Keys(c41Ctx, k) } }),
		m("ZRangeByScore", "strslice", func(rt *rapid.T, k string) c41Q {
			return func(p c41P) c41C {
				return p.ZRangeByScore(c41Ctx, k, rueidiscompat.ZRangeBy{Min: "-inf", Max: "+inf"})
			}
		}),
		m("SInter", "strslice", func(rt *rapid.T, k string) c41Q { return func(p c41P) c41C { return p.SInter(c41Ctx, k, k+"-2") } }),
		m("SUnion", "strslice", func(rt *rapid.T, k string) c41Q { return func(p c41P) c41C { return p.SUnion(c41Ctx, k, k+"-2") } }),
		m("SDiff", "strslice", func(rt *rapid.T, k string) c41Q { return func(p c41P) c41C { return p.SDiff(c41Ctx, k, k+"-2") } }),
		m("LPopCount", "strslice", func(rt *rapid.T, k string) c41Q { return func(p c41P) c41C { return p.LPopCount(c41Ctx, k, 2) } }),
		m("SPopN", "strslice", func(rt *rapid.T, k string) c41Q { return func(p c41P) c41C { return p.SPopN(c41Ctx, k, 2) } }),
		// StringStringMapCmd
		m("HGetAll", "mapss", func(rt *rapid.T, k string) c41Q { return func(p c41P) c41C { return p.HGetAll(c41Ctx, k) } }),
		// ZSliceCmd
		m("ZRangeWithScores", "zslice", func(rt *rapid.T, k string) c41Q {
			a, b := c41I(rt), c41I(rt)
			return func(p c41P) c41C { return p.ZRangeWithScores(c41Ctx, k, a, b) }
		}),
		m("ZRevRangeWithScores", "zslice", func(rt *rapid.T, k string) c41Q {
			a, b := c41I(rt), c41I(rt)
			return func(p c41P) c41C { return p.ZRevRangeWithScores(c41Ctx, k, a, b) }
		}),
		m("ZPopMin", "zslice", func(rt *rapid.T, k string) c41Q { return func(p c41P) c41C { return p.ZPopMin(c41Ctx, k, 3) } }),
		m("ZPopMax", "zslice", func(rt *rapid.T, k string) c41Q { return func(p c41P) c41C { return p.ZPopMax(c41Ctx, k, 3) } }),
		// DurationCmd
		m("TTL", "duration-s", func(rt *rapid.T, k string) c41Q { return func(p c41P) c41C { return p.TTL(c41Ctx, k) } }),
		m("PTTL", "duration-ms", func(rt *rapid.T, k string) c41Q { return func(p c41P) c41C { return p.PTTL(c41Ctx, k) } }),
		m("ObjectIdleTime", "duration-s", func(rt *rapid.T, k string) c41Q { return func(p c41P) c41C { return p.ObjectIdleTime(c41Ctx, k) } }),
		// IntSliceCmd, BoolSliceCmd, FloatSliceCmd
		m("LPosCount", "intslice", func(rt *rapid.T, k string) c41Q {
			v := c41S(rt)
			return func(p c41P) c41C { return p.LPosCount(c41Ctx, k, v, 2, rueidiscompat.LPosArgs{}) }
		}),
		m("SMIsMember", "boolslice", func(rt *rapid.T, k string) c41Q {
			a, b := c41S(rt), c41S(rt)
			return func(p c41P) c41C { return p.SMIsMember(c41Ctx, k, a, b) }
		}),
		m("ZMScore", "floatslice", func(rt *rapid.T, k string) c41Q {
			a, b := c41S(rt), c41S(rt)
			return func(p c41P) c41C { return p.ZMScore(c41Ctx, k, a, b) }
		}),
		// ScanCmd
		m("SScan", "scan", func(rt *rapid.T, k string) c41Q { return func(p c41P) c41C { return p.SScan(c41Ctx, k, 0, "*", 10) } }),
		m("HScan", "scan", func(rt *rapid.T, k string) c41Q { return func(p c41P) c41C { return p.HScan(c41Ctx, k, 5, "", 0) } }),
		m("ZScan", "scan", func(rt *rapid.T, k string) c41Q { return func(p c41P) c41C { return p.ZScan(c41Ctx, k, 0, "a*", 0) } }),
		m("Scan", "scan", func(rt *rapid.T, k string) c41Q { return func(p c41P) c41C { return p.Scan(c41Ctx, 7, k, 10) } }),
		// Cmd
		m("Do", "cmd", func(rt *rapid.T, k string) c41Q { return func(p c41P) c41C { return p.Do(c41Ctx, "GET", k) } }),
	}
}

// ---- model of a member and its scripted reply ---------------------------------------------------

type c41Member struct {
	Method  string `json:"method"`
	Kind    string `json:"kind"`
	Marker  string `json:"marker"`
	Outcome string `json:"outcome"` // val | err | nil | neterr
	Reply   string `json:"reply"`   // human readable
	Dropped bool   `json:"dropped,omitempty"`

	q     c41Q
	msg   rueidis.RedisMessage // val / err / nil
	want  any                  // expected Val() (Outcome val)
	want2 uint64               // scan cursor
	err   error                // neterr
	cmder rueidiscompat.Cmder
}

type c41Case struct {
	Mode      string       `json:"mode"` // pipeline | txpipeline | pipelined | txpipelined
	Members   []*c41Member `json:"members"`
	DiscardAt int          `json:"discard_at"`   // Discard() after that many members were queued; -1 = never
	Tx        string       `json:"tx,omitempty"` // commit | watch-abort | execabort | neterr
	AbortAt   int          `json:"abort_at,omitempty"`
}

func c41GenReply(rt *rapid.T, m *c41Member, allowNet bool) {
	outcomes := []string{"val", "val", "val", "val", "val", "val", "err", "nil"}
	if allowNet {
		outcomes = append(outcomes, "neterr")
	}
	if m.Kind == "bool" || m.Kind == "cmd" {
		// a null reply to a BoolCmd (SET NX style) is mapped to false without error by go-redis; the generic Cmd keeps nil as value in
		// some versions: both are outside the property text, not generated
		outcomes = []string{"val", "val", "val", "val", "err"}
	}
	m.Outcome = rapid.SampledFrom(outcomes).Draw(rt, "outcome")
	switch m.Outcome {
	case "err":
		text := rapid.SampledFrom([]string{"WRONGTYPE Operation against a key holding the wrong kind of value", "ERR value is not an integer or out of range", "OOM command not allowed", "NOPERM no"}).Draw(rt, "errtext") + " [" + m.Marker + "]"
		m.msg, m.Reply = mock.RedisError(text), "-"+text
		return
	case "nil":
		m.msg, m.Reply = mock.RedisNil(), "_"
		return
	case "neterr":
		m.err = fmt.Errorf("transport failure [%s]", m.Marker)
		m.Reply = "!" + m.err.Error()
		return
	}
	resp3 := rapid.Bool().Draw(rt, "resp3")
	strs := func() []string {
		return rapid.SliceOfN(rapid.SampledFrom([]string{"", "a", "b c", "\x00\xfe", "42"}), 0, 4).Draw(rt, "strs")
	}
	switch m.Kind {
	case "status":
		s := rapid.SampledFrom([]string{"OK", "string", "none", "QUEUED"}).Draw(rt, "status")
		m.msg, m.want = mock.RedisString(s), s
	case "string":
		s := c41S(rt) + "<" + m.Marker + ">"
		m.msg, m.want = mock.RedisBlobString(s), s
	case "int":
		i := c41I(rt)
		m.msg, m.want = mock.RedisInt64(i), i
	case "bool":
		b := rapid.Bool().Draw(rt, "b")
		if resp3 {
			m.msg = mock.RedisBool(b)
		} else if b {
			m.msg = mock.RedisInt64(1)
		} else {
			m.msg = mock.RedisInt64(0)
		}
		m.want = b
	case "float":
		f := c41F(rt)
		if resp3 {
			m.msg = mock.RedisFloat64(f)
		} else {
			m.msg = mock.RedisBlobString(strconv.FormatFloat(f, 'f', -1, 64))
		}
		m.want = f
	case "slice":
		ss := strs()
		arr := make([]rueidis.RedisMessage, len(ss))
		want := make([]any, len(ss))
		for i, s := range ss {
			if s == "" {
				arr[i], want[i] = mock.RedisNil(), nil
			} else {
				arr[i], want[i] = mock.RedisBlobString(s), s
			}
		}
		m.msg, m.want = mock.RedisArray(arr...), want
	case "strslice":
		ss := strs()
		arr := make([]rueidis.RedisMessage, len(ss))
		for i, s := range ss {
			arr[i] = mock.RedisBlobString(s)
		}
		m.msg, m.want = mock.RedisArray(arr...), ss
	case "mapss":
		keys := rapid.SliceOfNDistinct(rapid.SampledFrom([]string{"f1", "f2", "", "x y"}), 0, 3, rapid.ID[string]).Draw(rt, "fields")
		want := map[string]string{}
		var flat []rueidis.RedisMessage
		kv := map[string]rueidis.RedisMessage{}
		for i, k := range keys {
			v := "v" + strconv.Itoa(i) + m.Marker
			want[k] = v
			flat = append(flat, mock.RedisBlobString(k), mock.RedisBlobString(v))
			kv[k] = mock.RedisBlobString(v)
		}
		if resp3 {
			m.msg = mock.RedisMap(kv)
		} else {
			m.msg = mock.RedisArray(flat...)
		}
		m.want = want
	case "zslice":
		ss := rapid.SliceOfN(rapid.SampledFrom([]string{"a", "b c", "zz"}), 0, 3).Draw(rt, "zmembers")
		want := make([]rueidiscompat.Z, len(ss))
		var arr []rueidis.RedisMessage
		for i, s := range ss {
			f := c41F(rt)
			want[i] = rueidiscompat.Z{Member: s, Score: f}
			if resp3 {
				arr = append(arr, mock.RedisArray(mock.RedisBlobString(s), mock.RedisFloat64(f)))
			} else {
				arr = append(arr, mock.RedisBlobString(s), mock.RedisBlobString(strconv.FormatFloat(f, 'f', -1, 64)))
			}
		}
		m.msg, m.want = mock.RedisArray(arr...), want
	case "duration-s", "duration-ms":
		n := rapid.SampledFrom([]int64{1, 59, 86400, 1500}).Draw(rt, "n")
		unit := time.Second
		if m.Kind == "duration-ms" {
			unit = time.Millisecond
		}
		m.msg, m.want = mock.RedisInt64(n), time.Duration(n)*unit
	case "intslice":
		is := rapid.SliceOfN(rapid.Int64Range(-5, 5), 0, 3).Draw(rt, "ints")
		arr := make([]rueidis.RedisMessage, len(is))
		for i, v := range is {
			arr[i] = mock.RedisInt64(v)
		}
		m.msg, m.want = mock.RedisArray(arr...), is
	case "boolslice":
		bs := rapid.SliceOfN(rapid.Bool(), 0, 3).Draw(rt, "bools")
		arr := make([]rueidis.RedisMessage, len(bs))
		for i, v := range bs {
			if v {
				arr[i] = mock.RedisInt64(1)
			} else {
				arr[i] = mock.RedisInt64(0)
			}
		}
		m.msg, m.want = mock.RedisArray(arr...), bs
	case "floatslice":
		n := rapid.IntRange(0, 3).Draw(rt, "nf")
		fs := make([]float64, n)
		arr := make([]rueidis.RedisMessage, n)
		for i := range fs {
			fs[i] = c41F(rt)
			if resp3 {
				arr[i] = mock.RedisFloat64(fs[i])
			} else {
				arr[i] = mock.RedisBlobString(strconv.FormatFloat(fs[i], 'f', -1, 64))
			}
		}
		m.msg, m.want = mock.RedisArray(arr...), fs
	case "scan":
		ss := strs()
		arr := make([]rueidis.RedisMessage, len(ss))
		for i, s := range ss {
			arr[i] = mock.RedisBlobString(s)
		}
		cur := rapid.Uint64Range(0, 1<<40).Draw(rt, "cursor")
		m.msg, m.want, m.want2 = mock.RedisArray(mock.RedisBlobString(strconv.FormatUint(cur, 10)), mock.RedisArray(arr...)), ss, cur
	case "cmd":
		if resp3 {
			i := c41I(rt)
			m.msg, m.want = mock.RedisInt64(i), i
		} else {
			s := c41S(rt) + "<" + m.Marker + ">"
			m.msg, m.want = mock.RedisBlobString(s), s
		}
	default:
		panic("harness: unknown kind " + m.Kind)
	}
	m.Reply = m.msg.String()
}

func genC41Case(rt *rapid.T, table []c41Method) *c41Case {
	cs := &c41Case{Mode: rapid.SampledFrom([]string{"pipeline", "txpipeline", "pipelined", "txpipelined"}).Draw(rt, "mode"), DiscardAt: -1}
	tx := strings.HasPrefix(cs.Mode, "tx")
	n := rapid.IntRange(1, 20).Draw(rt, "n")
	if tx {
		cs.Tx = rapid.SampledFrom([]string{"commit", "commit", "commit", "commit", "watch-abort", "execabort", "neterr"}).Draw(rt, "tx")
	}
	for i := 0; i < n; i++ {
		e := rapid.SampledFrom(table).Draw(rt, "method")
		m := &c41Member{Method: e.Name, Kind: e.Kind, Marker: fmt.Sprintf("m%d", i)}
		m.q = e.Gen(rt, m.Marker)
		c41GenReply(rt, m, !tx)
		cs.Members = append(cs.Members, m)
	}
	if rapid.IntRange(0, 3).Draw(rt, "discard") == 0 {
		cs.DiscardAt = rapid.IntRange(0, n).Draw(rt, "discardAt")
	}
	if cs.Tx == "execabort" {
		cs.AbortAt = rapid.IntRange(0, n-1).Draw(rt, "abortAt")
	}
	return cs
}

// ---- scripted client ----------------------------------------------------------------------------

type c41Client struct {
	cs      *c41Case
	batches [][][]string // every Do / DoMulti call with the argv of its commands
	kinds   []string     // "Do" | "DoMulti"
	other   []string     // unexpected calls
}

// the builder of the gomock based mock client is the only exported way to obtain a Builder without a connection
var c41Builder = mock.NewClient(nil).B()

func (c *c41Client) B() rueidis.Builder { return c41Builder }

func (c *c41Client) find(argv []string) *c41Member {
	for _, a := range argv {
		if strings.HasPrefix(a, "m") {
			for _, m := range c.cs.Members {
				if m.Marker == a {
					return m
				}
			}
		}
	}
	return nil
}

func (c *c41Client) reply(argv []string) rueidis.RedisResult {
	m := c.find(argv)
	if m == nil {
		return rueidis.NewErrorResult(fmt.Errorf("harness: unscripted command %q", argv))
	}
	if m.Outcome == "neterr" {
		return rueidis.NewErrorResult(m.err)
	}
	return rueidis.NewResult(m.msg, nil)
}

var errC41Net = errors.New("transport failure of the whole batch")

func (c *c41Client) Do(ctx context.Context, cmd rueidis.Completed) rueidis.RedisResult {
	argv := append([]string{}, cmd.Commands()...)
	c.batches = append(c.batches, [][]string{argv})
	c.kinds = append(c.kinds, "Do")
	return c.reply(argv)
}

func (c *c41Client) DoMulti(ctx context.Context, multi ...rueidis.Completed) []rueidis.RedisResult {
	var batch [][]string
	for _, cmd := range multi {
		batch = append(batch, append([]string{}, cmd.Commands()...))
	}
	c.batches = append(c.batches, batch)
	c.kinds = append(c.kinds, "DoMulti")
	out := make([]rueidis.RedisResult, len(batch))
	isTx := len(batch) >= 2 && strings.EqualFold(batch[0][0], "MULTI") && strings.EqualFold(batch[len(batch)-1][0], "EXEC")
	if !isTx {
		for i, argv := range batch {
			out[i] = c.reply(argv)
		}
		return out
	}
	if c.cs.Tx == "neterr" {
		for i := range out {
			out[i] = rueidis.NewErrorResult(errC41Net)
		}
		return out
	}
	out[0] = rueidis.NewResult(mock.RedisString("OK"), nil)
	var elems []rueidis.RedisMessage
	pos := 0
	for i := 1; i < len(batch)-1; i++ {
		out[i] = rueidis.NewResult(mock.RedisString("QUEUED"), nil)
		if c.cs.Tx == "execabort" && pos == c.cs.AbortAt {
			out[i] = rueidis.NewResult(mock.RedisError("ERR unknown command"), nil)
		}
		pos++
		if m := c.find(batch[i]); m != nil {
			elems = append(elems, m.msg)
		} else {
			elems = append(elems, mock.RedisError("ERR harness: unscripted command"))
		}
	}
	switch c.cs.Tx {
	case "watch-abort":
		out[len(out)-1] = rueidis.NewResult(mock.RedisNil(), nil)
	case "execabort":
		out[len(out)-1] = rueidis.NewResult(mock.RedisError("EXECABORT Transaction discarded because of previous errors."), nil)
	default:
		out[len(out)-1] = rueidis.NewResult(mock.RedisArray(elems...), nil)
	}
	return out
}

func (c *c41Client) unexpected(name string) { c.other = append(c.other, name) }

func (c *c41Client) DoCache(ctx context.Context, cmd rueidis.Cacheable, ttl time.Duration) rueidis.RedisResult {
	c.unexpected("DoCache")
	return rueidis.NewErrorResult(errors.New("harness: unexpected DoCache"))
}
func (c *c41Client) DoMultiCache(ctx context.Context, multi ...rueidis.CacheableTTL) []rueidis.RedisResult {
	c.unexpected("DoMultiCache")
	return make([]rueidis.RedisResult, len(multi))
}
func (c *c41Client) DoStream(ctx context.Context, cmd rueidis.Completed) rueidis.RedisResultStream {
	c.unexpected("DoStream")
	return rueidis.NewErrorResultStream(errors.New("harness: unexpected DoStream"))
}
func (c *c41Client) DoMultiStream(ctx context.Context, multi ...rueidis.Completed) rueidis.MultiRedisResultStream {
	c.unexpected("DoMultiStream")
	return rueidis.NewErrorResultStream(errors.New("harness: unexpected DoMultiStream"))
}
func (c *c41Client) Receive(ctx context.Context, subscribe rueidis.Completed, fn func(msg rueidis.PubSubMessage)) error {
	c.unexpected("Receive")
	return errors.New("harness: unexpected Receive")
}
func (c *c41Client) Dedicated(fn func(rueidis.DedicatedClient) error) error {
	c.unexpected("Dedicated")
	return errors.New("harness: unexpected Dedicated")
}
func (c *c41Client) Dedicate() (rueidis.DedicatedClient, func()) {
	c.unexpected("Dedicate")
	return nil, func() {}
}
func (c *c41Client) Nodes() map[string]rueidis.Client {
	return map[string]rueidis.Client{"127.0.0.1:6379": c}
}
func (c *c41Client) Mode() rueidis.ClientMode { return rueidis.ClientModeStandalone }
func (c *c41Client) Close()                   {}

var _ rueidis.Client = (*c41Client)(nil)

// ---- run + oracle -------------------------------------------------------------------------------

type c41Run struct {
	rets          []rueidiscompat.Cmder
	err           error
	lenAfterDisc  int
	discarded     bool
	batchesAtDisc int
	batchesAtExec int
	rets2         []rueidiscompat.Cmder
	err2          error
	panicked      any
}

func c41Exec(cs *c41Case, cl *c41Client) (r c41Run) {
	defer func() {
		if p := recover(); p != nil {
			r.panicked = p
		}
	}()
	ad := rueidiscompat.NewAdapter(cl)
	queue := func(p rueidiscompat.Pipeliner) {
		for i, m := range cs.Members {
			if i == cs.DiscardAt {
				p.Discard()
				r.discarded, r.lenAfterDisc, r.batchesAtDisc = true, p.Len(), len(cl.batches)
			}
			m.cmder = m.q(p)
		}
		if cs.DiscardAt == len(cs.Members) {
			p.Discard()
			r.discarded, r.lenAfterDisc, r.batchesAtDisc = true, p.Len(), len(cl.batches)
		}
	}
	switch cs.Mode {
	case "pipeline", "txpipeline":
		var p rueidiscompat.Pipeliner
		if cs.Mode == "pipeline" {
			p = ad.Pipeline()
		} else {
			p = ad.TxPipeline()
		}
		queue(p)
		r.rets, r.err = p.Exec(c41Ctx)
		r.batchesAtExec = len(cl.batches)
		r.rets2, r.err2 = p.Exec(c41Ctx)
	case "pipelined":
		r.rets, r.err = ad.Pipelined(c41Ctx, func(p rueidiscompat.Pipeliner) error { queue(p); return nil })
		r.batchesAtExec = len(cl.batches)
	case "txpipelined":
		r.rets, r.err = ad.TxPipelined(c41Ctx, func(p rueidiscompat.Pipeliner) error { queue(p); return nil })
		r.batchesAtExec = len(cl.batches)
	}
	return r
}

func c41Empty(v any) bool {
	rv := reflect.ValueOf(v)
	switch rv.Kind() {
	case reflect.Slice, reflect.Map:
		return rv.Len() == 0
	case reflect.Invalid:
		return true
	}
	return false
}

func c41ValOf(cm rueidiscompat.Cmder) (v any, cursor uint64) {
	if sc, ok := cm.(*rueidiscompat.ScanCmd); ok {
		keys, cur := sc.Val()
		return keys, cur
	}
	out := reflect.ValueOf(cm).MethodByName("Val").Call(nil)
	return out[0].Interface(), 0
}

// c41MemberCheck compares a member's Cmder with the model; returns "" when it holds its own scripted result.
func c41MemberCheck(m *c41Member) string {
	err := m.cmder.Err()
	switch m.Outcome {
	case "err":
		// rueidis drops the generic "ERR " prefix of error replies; which spelling is right is not part of this property
		want := strings.TrimPrefix(m.Reply, "-")
		if err == nil || strings.TrimPrefix(err.Error(), "ERR ") != strings.TrimPrefix(want, "ERR ") {
			return fmt.Sprintf("Err() = %v, want the error reply %q", err, want)
		}
	case "nil":
		if !errors.Is(err, rueidiscompat.Nil) {
			return fmt.Sprintf("Err() = %v, want redis nil", err)
		}
	case "neterr":
		if !errors.Is(err, m.err) {
			return fmt.Sprintf("Err() = %v, want %v", err, m.err)
		}
	case "val":
		if err != nil {
			return fmt.Sprintf("Err() = %v, want nil (reply %s)", err, m.Reply)
		}
		got, cur := c41ValOf(m.cmder)
		if !(reflect.DeepEqual(got, m.want) || (c41Empty(got) && c41Empty(m.want))) {
			return fmt.Sprintf("Val() = %#v, want %#v (reply %s)", got, m.want, m.Reply)
		}
		if m.Kind == "scan" && cur != m.want2 {
			return fmt.Sprintf("cursor = %d, want %d", cur, m.want2)
		}
	}
	return ""
}

func c41HasMarker(argv []string, marker string) bool {
	for _, a := range argv {
		if a == marker {
			return true
		}
	}
	return false
}

func c41Check(c *stat.Collector, rt stat.Fataler, cs *c41Case, cl *c41Client, r c41Run) (nt bool, classes []string) {
	tx := strings.HasPrefix(cs.Mode, "tx")
	if r.panicked != nil {
		c.Fail(rt, "C41.no-panic", fmt.Sprintf("panic: %v", r.panicked), cs)
	}
	if len(cl.other) > 0 {
		c.Fail(rt, "C41.wire", fmt.Sprintf("the pipeline used %v of the client", cl.other), cs)
	}
	var live []*c41Member
	for i, m := range cs.Members {
		if cs.DiscardAt >= 0 && i < cs.DiscardAt {
			m.Dropped = true
			continue
		}
		live = append(live, m)
	}
	classes = append(classes, "mode-"+cs.Mode)
	if r.discarded {
		classes = append(classes, "discard")
		if r.lenAfterDisc != 0 {
			c.Fail(rt, "C41.discard-len", fmt.Sprintf("Len() = %d right after Discard", r.lenAfterDisc), cs)
		}
		if r.batchesAtDisc != 0 {
			c.Fail(rt, "C41.discard-sends-nothing", "commands were sent before Exec", cs)
		}
	}
	// wire
	var sent [][]string
	for _, b := range cl.batches[:r.batchesAtExec] {
		sent = append(sent, b...)
	}
	if len(cl.batches) != r.batchesAtExec {
		c.Fail(rt, "C41.second-exec", fmt.Sprintf("a second Exec sent %d more batch(es)", len(cl.batches)-r.batchesAtExec), cs)
	}
	if len(live) == 0 {
		if len(sent) != 0 {
			c.Fail(rt, "C41.discard-drops-all", fmt.Sprintf("nothing is queued but Exec sent %q", sent), cs)
		}
		if len(r.rets) != 0 || r.err != nil {
			c.Fail(rt, "C41.discard-drops-all", fmt.Sprintf("nothing is queued but Exec returned %d commands, err %v", len(r.rets), r.err), cs)
		}
		return false, append(classes, "empty")
	}
	members := sent
	if tx {
		if r.batchesAtExec != 1 || cl.kinds[0] != "DoMulti" {
			c.Fail(rt, "C41.tx-one-batch", fmt.Sprintf("TxPipeline.Exec used %d client calls %v, want one DoMulti", r.batchesAtExec, cl.kinds), cs)
		}
		if len(sent) < 2 || !(len(sent[0]) == 1 && strings.EqualFold(sent[0][0], "MULTI")) || !(len(sent[len(sent)-1]) == 1 && strings.EqualFold(sent[len(sent)-1][0], "EXEC")) {
			c.Fail(rt, "C41.tx-multi-exec", fmt.Sprintf("the batch is not MULTI ... EXEC: %q", sent), cs)
		}
		members = sent[1 : len(sent)-1]
	}
	if len(members) != len(live) {
		c.Fail(rt, "C41.wire-members", fmt.Sprintf("%d commands were sent for %d queued commands: %q", len(members), len(live), members), cs)
	}
	for i, m := range live {
		if !c41HasMarker(members[i], m.Marker) {
			c.Fail(rt, "C41.wire-order", fmt.Sprintf("command %d on the wire is %q, want the %s of %s", i, members[i], m.Method, m.Marker), cs)
		}
	}
	// returned Cmders: the queued objects in queue order
	if len(r.rets) != len(live) {
		c.Fail(rt, "C41.exec-returns-queued", fmt.Sprintf("Exec returned %d commands, %d are queued", len(r.rets), len(live)), cs)
	}
	for i, m := range live {
		if r.rets[i] != m.cmder {
			c.Fail(rt, "C41.exec-returns-queued", fmt.Sprintf("Exec result %d is not the object returned when %s (%s) was queued", i, m.Method, m.Marker), cs)
		}
	}
	firstErr := -1
	for i, m := range live {
		if m.Outcome != "val" && firstErr < 0 {
			firstErr = i
		}
	}
	switch {
	case tx && cs.Tx == "watch-abort":
		classes = append(classes, "tx-watch-abort")
		if !errors.Is(r.err, rueidiscompat.TxFailedErr) {
			c.Fail(rt, "C41.tx-failed", fmt.Sprintf("EXEC returned null but Exec returned %v, want TxFailedErr", r.err), cs)
		}
		return true, classes
	case tx && cs.Tx == "execabort":
		classes = append(classes, "tx-execabort")
		if r.err == nil {
			c.Fail(rt, "C41.tx-execabort", "EXEC returned EXECABORT but Exec returned no error", cs)
		}
		return false, classes
	case tx && cs.Tx == "neterr":
		classes = append(classes, "tx-neterr")
		if r.err == nil {
			c.Fail(rt, "C41.tx-neterr", "the whole batch failed but Exec returned no error", cs)
		}
		return false, classes
	}
	for i, m := range live {
		if d := c41MemberCheck(m); d != "" {
			c.Fail(rt, "C41.own-result", fmt.Sprintf("member %d %s (%s, %s): %s", i, m.Method, m.Marker, m.Kind, d), cs)
		}
	}
	if firstErr < 0 {
		classes = append(classes, "all-ok")
		if r.err != nil {
			c.Fail(rt, "C41.first-error", fmt.Sprintf("no member failed but Exec returned %v", r.err), cs)
		}
	} else {
		m := live[firstErr]
		classes = append(classes, "first-error-"+m.Outcome)
		if firstErr > 0 {
			classes = append(classes, "first-error-not-first-member")
		}
		if r.err == nil || r.err != m.cmder.Err() {
			c.Fail(rt, "C41.first-error", fmt.Sprintf("Exec returned %v, want the error of member %d (%s): %v", r.err, firstErr, m.Marker, m.cmder.Err()), cs)
		}
	}
	return len(live) >= 5 && firstErr > 0, classes
}

func TestVerif_C41_Pipelines(t *testing.T) {
	table := c41Table()
	c := stat.For("C41", "pipelines").Rule(fmt.Sprintf("rueidiscompat.NewAdapter over a hand-written rueidis.Client whose replies are bound to commands by a unique marker argument; 1-20 members drawn from %d adapter methods of 17 result kinds with generated arguments, queued on Pipeline / TxPipeline / Pipelined / TxPipelined, optional Discard at a generated point, per-member scripted reply (typed value in RESP2 or RESP3 shape, error reply, null, transport error), transaction outcome commit / null EXEC / EXECABORT / transport failure; oracle: Exec returns exactly the queued objects in queue order, each holding its own reply (Val/Err against the model), error = first failing member's error (nil when none); TxPipeline = one DoMulti of MULTI, members in order, EXEC; null EXEC -> TxFailedErr; Discard -> Len 0, dropped members never sent; second Exec sends nothing; non-trivial = >=5 live members with the first failing member not at position 0, or a TxFailedErr outcome", len(table)))
	defer c.Flush()
	c.Extra("methods_in_table", len(table))
	rapid.Check(t, func(rt *rapid.T) {
		cs := genC41Case(rt, table)
		cl := &c41Client{cs: cs}
		r := c41Exec(cs, cl)
		nt, classes := c41Check(c, rt, cs, cl, r)
		key := fmt.Sprintf("%s|%d|%s|%d", cs.Mode, cs.DiscardAt, cs.Tx, cs.AbortAt)
		for _, m := range cs.Members {
			key += "|" + m.Method + ":" + m.Outcome + ":" + m.Reply
			if nt {
				classes = append(classes, "kind-"+m.Kind+"-"+m.Outcome)
			}
		}
		c.Eval(nt, key, classes...)
		c.Sample(nt, func() any { return cs })
	})
}
