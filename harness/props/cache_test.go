package props

// Shared client-side-cache history runner for C06 (no stale hits), C07 (expiry), C09 (single
// flight) and C11 (positional batches): cached reads by several callers against keys that
// "other clients" overwrite, delete, flush and expire, on one pipeline connection.

import (
	"context"
	"encoding/json"
	"fmt"
	"sort"
	"strconv"
	"strings"
	"sync"
	"testing"
	"time"

	"github.com/redis/rueidis"
	"pgregory.net/rapid"
	"verif/harness/sim"
	"verifkit/bubble"
	"verifkit/fakeredis"
	"verifkit/resp"
)

type cOp struct {
	GapUs    int      `json:"gap_us"`
	Kind     string   `json:"kind"` // get multi mgetcache docache-mget
	Keys     []string `json:"keys"`
	TTLMs    []int    `json:"ttl_ms"` // per key (get/multi) or [0] for the helpers
	Static   bool     `json:"static_ttl,omitempty"`
	Statics  []bool   `json:"statics,omitempty"` // multi: per member (a mixed batch is rewritten differently by the client)
	CancelUs int      `json:"cancel_us,omitempty"`
}

// staticAt says whether the member at pos is tagged ToStaticTTL.
func (o cOp) staticAt(pos int) bool {
	if o.Kind == "multi" && o.Statics != nil {
		return pos >= 0 && pos < len(o.Statics) && o.Statics[pos]
	}
	return o.Static && (o.Kind == "get" || o.Kind == "multi" || o.Kind == "getrange")
}

type cExt struct {
	AtUs int    `json:"at_us"`
	Kind string `json:"kind"` // set del flushall kill-conns
	Key  string `json:"key,omitempty"`
	PXMs int    `json:"px_ms,omitempty"`
}

type cPlan struct {
	Tracking  string   `json:"tracking"`      // optin optout bcast
	Store     string   `json:"store"`         // lru adapter
	FetchLats []int    `json:"fetch_lats_us"` // latency of the n-th cache fetch batch (cycled)
	Initial   []string `json:"initial"`       // keys that exist at the start
	Callers   [][]cOp  `json:"callers"`
	Ext       []cExt   `json:"ext,omitempty"`
}

type cRead struct {
	Caller, Op, Pos int
	Key             string
	StartUs, EndUs  int64
	Err             error
	Nil             bool
	Val             string // "key@ver"
	Hit             bool
	PXAT            int64 // CachePXAT (unix ms), -1 none
	TTLMs           int
}

type cWrite struct {
	AtUs int64
	Key  string // "" = all (flushall)
	Ver  int    // 0 = deleted
	Kind string
}

type cRun struct {
	Res     bubble.Result
	Reads   []*cRead
	Writes  []cWrite
	Aborts  []cWrite // cache fetches refused at queueing time (abort-fetch events consumed)
	Events  []fakeredis.Event
	EpochMs int64 // unix ms of virtual time 0
	Pending int
	CloseOK bool
}

// mapCache is a SimpleCache over a map for NewSimpleCacheAdapter.
type mapCache struct {
	mu sync.Mutex
	m  map[string]rueidis.RedisMessage
}

func (c *mapCache) Get(key string) rueidis.RedisMessage {
	c.mu.Lock()
	defer c.mu.Unlock()
	return c.m[key]
}
func (c *mapCache) Set(key string, val rueidis.RedisMessage) {
	c.mu.Lock()
	c.m[key] = val
	c.mu.Unlock()
}
func (c *mapCache) Del(key string) { c.mu.Lock(); delete(c.m, key); c.mu.Unlock() }
func (c *mapCache) Flush()         { c.mu.Lock(); c.m = map[string]rueidis.RedisMessage{}; c.mu.Unlock() }

func cacheRun(t *testing.T, plan cPlan) (run cRun) {
	var mu sync.Mutex
	ring := queueLabel() == "ring"
	run.Res = bubble.Run(t, func() {
		w := fakeredis.NewWorld()
		srv := w.NewServer("127.0.0.1:6379")
		clock := sim.NewClock()
		run.EpochMs = time.Now().UnixMilli()
		vers := map[string]int{}
		write := func(kind, key string, px int) {
			mu.Lock()
			defer mu.Unlock()
			switch kind {
			case "set":
				vers[key]++
				args := []string{"SET", key, key + "@" + strconv.Itoa(vers[key])}
				if px > 0 {
					args = append(args, "PX", strconv.Itoa(px))
				}
				srv.Do(args...)
				run.Writes = append(run.Writes, cWrite{AtUs: clock.Us(), Key: key, Ver: vers[key], Kind: kind})
				if px > 0 {
					// the key disappears at expiry: record it as a deletion at that instant
					// Redis keeps expiries in whole milliseconds of its clock (the bubble's epoch is ms-aligned)
					run.Writes = append(run.Writes, cWrite{AtUs: (clock.Us()/1000 + int64(px) + 1) * 1000, /* readable through its expiry millisecond (Redis: now > when) */ Key: key, Ver: -vers[key], Kind: "expire"})
				}
			case "del":
				if r := srv.Do("DEL", key); r.I == 0 {
					return // the key did not exist: nothing changes and Redis sends no invalidation
				}
				run.Writes = append(run.Writes, cWrite{AtUs: clock.Us(), Key: key, Ver: 0, Kind: kind})
			case "flushall":
				srv.Do("FLUSHALL")
				run.Writes = append(run.Writes, cWrite{AtUs: clock.Us(), Key: "", Ver: 0, Kind: kind})
			}
		}
		for _, k := range plan.Initial {
			write("set", k, 0)
		}
		srv.ExpireAfterMs = true // like Redis: a key is readable during its expiry millisecond, with PTTL 0
		armed := map[string]int{}
		refused := map[int][]string{} // per connection: keys refused in the transaction that is being queued
		txKeys := map[int][]string{}  // per connection: keys whose PTTL was seen in that transaction
		srv.Hooks.AfterExec = func(c *fakeredis.Conn, req int, argv []string, reply resp.Value) {
			// the callers learn of the refusal when the EXEC of that transaction is answered
			if len(argv) == 1 && argv[0] == "EXEC" {
				mu.Lock()
				if len(refused[c.ID]) > 0 {
					// the whole transaction is discarded: every key it was fetching (an MGET fetches several)
					for _, k := range txKeys[c.ID] {
						run.Aborts = append(run.Aborts, cWrite{AtUs: clock.Us(), Key: k, Kind: "abort-fetch"})
					}
				}
				delete(refused, c.ID)
				delete(txKeys, c.ID)
				mu.Unlock()
			}
		}
		srv.Hooks.Command = func(c *fakeredis.Conn, req int, argv []string) (resp.Value, bool) {
			// PTTL is only sent by the client inside the transaction of a cache fetch
			if len(argv) == 2 && argv[0] == "PTTL" {
				mu.Lock()
				defer mu.Unlock()
				txKeys[c.ID] = append(txKeys[c.ID], argv[1])
				if armed[argv[1]] > 0 {
					armed[argv[1]]--
					refused[c.ID] = append(refused[c.ID], argv[1])
					return resp.Err("OOM command not allowed when used memory > 'maxmemory' (verif abort " + argv[1] + ")"), true
				}
			}
			return resp.Value{}, false
		}
		var lmu sync.Mutex
		batches := 0
		srv.Hooks.Latency = func(c *fakeredis.Conn, req int, argv []string) time.Duration {
			if len(plan.FetchLats) == 0 {
				return 0
			}
			optin := len(argv) == 3 && strings.EqualFold(argv[0], "CLIENT") && strings.EqualFold(argv[1], "CACHING") || len(argv) == 2 && argv[0] == "ECHO" && argv[1] == ""
			if ring {
				if c.BurstIdx != 0 || !optin {
					return 0
				}
			} else if argv[0] != "EXEC" && !(argv[0] == "GET" || argv[0] == "MGET") {
				return 0
			} else if argv[0] != "EXEC" {
				return 0
			}
			lmu.Lock()
			n := plan.FetchLats[batches%len(plan.FetchLats)]
			batches++
			lmu.Unlock()
			return time.Duration(n) * time.Microsecond
		}
		opt := sim.Option(w, "127.0.0.1:6379")
		opt.ForceSingleClient = true
		opt.DisableRetry = true
		opt.PipelineMultiplex = -1
		if ring {
			opt.WriteBufferEachConn = 1 << 20
		}
		switch plan.Tracking {
		case "optout":
			opt.ClientTrackingOptions = []string{"OPTOUT"}
		case "bcast":
			opt.ClientTrackingOptions = []string{"BCAST"}
		}
		if plan.Store == "adapter" {
			opt.NewCacheStoreFn = func(rueidis.CacheStoreOption) rueidis.CacheStore {
				return rueidis.NewSimpleCacheAdapter(&mapCache{m: map[string]rueidis.RedisMessage{}})
			}
		}
		client, err := rueidis.NewClient(opt)
		if err != nil {
			panic(fmt.Sprintf("harness: NewClient failed: %v", err))
		}
		record := func(ci, oi, pos int, key string, start int64, ttl int, m rueidis.RedisMessage, err error) {
			r := &cRead{Caller: ci, Op: oi, Pos: pos, Key: key, StartUs: start, EndUs: clock.Us(), Err: err, PXAT: -1, TTLMs: ttl}
			if err == nil {
				if m.IsNil() {
					r.Nil = true
				} else if s, e := m.ToString(); e == nil {
					r.Val = s
				} else {
					r.Err = e
				}
				r.Hit = m.IsCacheHit()
				r.PXAT = m.CachePXAT()
			} else if rueidis.IsRedisNil(err) {
				r.Err, r.Nil = nil, true
				r.Hit = m.IsCacheHit()
				r.PXAT = m.CachePXAT()
			}
			mu.Lock()
			run.Reads = append(run.Reads, r)
			mu.Unlock()
		}
		var wg sync.WaitGroup
		var pend sync.Map
		for ci, ops := range plan.Callers {
			wg.Add(1)
			go func(ci int, ops []cOp) {
				defer wg.Done()
				for oi, op := range ops {
					time.Sleep(time.Duration(op.GapUs) * time.Microsecond)
					ctx := context.Background()
					var cancel context.CancelFunc = func() {}
					if op.CancelUs > 0 {
						ctx, cancel = context.WithCancel(ctx)
						time.AfterFunc(time.Duration(op.CancelUs)*time.Microsecond, cancel)
					}
					pend.Store([2]int{ci, oi}, true)
					start := clock.Us()
					getAt := func(k string, pos int) rueidis.Cacheable {
						c := client.B().Get().Key(k).Cache()
						if op.staticAt(pos) {
							c = c.ToStaticTTL()
						}
						return c
					}
					get := func(k string) rueidis.Cacheable { return getAt(k, 0) }
					switch op.Kind {
					case "get":
						res := client.DoCache(ctx, get(op.Keys[0]), time.Duration(op.TTLMs[0])*time.Millisecond)
						m, err := res.ToMessage()
						record(ci, oi, 0, op.Keys[0], start, op.TTLMs[0], m, err)
					case "getrange":
						// a second cacheable command on the same key: GETRANGE k 0 -1 returns the whole value ("" when absent)
						gr := client.B().Getrange().Key(op.Keys[0]).Start(0).End(-1).Cache()
						if op.Static {
							gr = gr.ToStaticTTL()
						}
						res := client.DoCache(ctx, gr, time.Duration(op.TTLMs[0])*time.Millisecond)
						m, err := res.ToMessage()
						if s, e := m.ToString(); err == nil && e == nil && s == "" {
							err = rueidis.Nil
						}
						record(ci, oi, 0, op.Keys[0], start, op.TTLMs[0], m, err)
					case "multi":
						cts := make([]rueidis.CacheableTTL, len(op.Keys))
						for i, k := range op.Keys {
							cts[i] = rueidis.CT(getAt(k, i), time.Duration(op.TTLMs[i])*time.Millisecond)
						}
						for i, res := range client.DoMultiCache(ctx, cts...) {
							m, err := res.ToMessage()
							record(ci, oi, i, op.Keys[i], start, op.TTLMs[i], m, err)
						}
					case "mgetcache":
						ret, err := rueidis.MGetCache(client, ctx, time.Duration(op.TTLMs[0])*time.Millisecond, op.Keys)
						if err != nil {
							record(ci, oi, 0, op.Keys[0], start, op.TTLMs[0], rueidis.RedisMessage{}, err)
						} else {
							ks := make([]string, 0, len(ret))
							for k := range ret {
								ks = append(ks, k)
							}
							sort.Strings(ks)
							for i, k := range ks {
								record(ci, oi, i, k, start, op.TTLMs[0], ret[k], nil)
							}
							mu.Lock()
							run.Reads = append(run.Reads, &cRead{Caller: ci, Op: oi, Pos: -1, Key: strings.Join(ks, ","), StartUs: start, EndUs: clock.Us(), PXAT: -1})
							mu.Unlock()
						}
					case "docache-mget":
						res := client.DoCache(ctx, client.B().Mget().Key(op.Keys...).Cache(), time.Duration(op.TTLMs[0])*time.Millisecond)
						arr, err := res.ToArray()
						if err != nil {
							record(ci, oi, 0, op.Keys[0], start, op.TTLMs[0], rueidis.RedisMessage{}, err)
						} else {
							for i := range arr {
								k := "?"
								if i < len(op.Keys) {
									k = op.Keys[i]
								}
								record(ci, oi, i, k, start, op.TTLMs[0], arr[i], nil)
							}
							if len(arr) != len(op.Keys) {
								record(ci, oi, -2, fmt.Sprintf("len=%d want %d", len(arr), len(op.Keys)), start, 0, rueidis.RedisMessage{}, nil)
							}
						}
					}
					pend.Delete([2]int{ci, oi})
					cancel()
				}
			}(ci, ops)
		}
		for _, e := range plan.Ext {
			e := e
			time.AfterFunc(time.Duration(e.AtUs)*time.Microsecond, func() {
				if e.Kind == "abort-fetch" {
					// the next cache fetch of this key is refused while it is queued (as -OOM, -MOVED, -NOPERM ... would):
					// its EXEC aborts, the connection stays up
					mu.Lock()
					armed[e.Key]++
					mu.Unlock()
					return
				}
				if e.Kind == "kill-conns" {
					for _, c := range srv.LiveConns() {
						c.Kill()
					}
					mu.Lock()
					run.Writes = append(run.Writes, cWrite{AtUs: clock.Us(), Kind: "kill-conns", Key: "\x00none"})
					mu.Unlock()
					return
				}
				write(e.Kind, e.Key, e.PXMs)
			})
		}
		if !sim.WaitTimeout(&wg, 5*time.Minute) {
			pend.Range(func(k, v any) bool { run.Pending++; return true })
		}
		run.CloseOK = sim.CallTimeout(time.Minute, client.Close)
		w.Stop()
		run.Events = w.Snapshot()
		time.Sleep(5 * time.Second)
	})
	sort.SliceStable(run.Writes, func(i, j int) bool { return run.Writes[i].AtUs < run.Writes[j].AtUs })
	return
}

func genCachePlan(rt *rapid.T) cPlan { return genCachePlanForms(rt, false) }

// genCachePlanForms with forms=true also issues GETRANGE k 0 -1 (a second cache entry per key) and DoMultiCache batches
// that mix ToStaticTTL and plain members; only checks whose oracle is per key and time (C06) use it.
func genCachePlanForms(rt *rapid.T, forms bool) cPlan {
	keys := []string{"k1", "k2", "k3", "k4"}
	p := cPlan{
		Tracking: rapid.SampledFrom([]string{"optin", "optin", "optout", "bcast"}).Draw(rt, "tracking"),
		Store:    rapid.SampledFrom([]string{"lru", "lru", "adapter"}).Draw(rt, "store"),
	}
	p.FetchLats = rapid.SliceOfN(rapid.SampledFrom([]int{0, 0, 300, 2000, 9000}), 1, 4).Draw(rt, "fetchLats")
	for _, k := range keys {
		if rapid.IntRange(0, 3).Draw(rt, "exists") != 0 {
			p.Initial = append(p.Initial, k)
		}
	}
	ttl := func() int { return rapid.SampledFrom([]int{5, 20, 100, 1000, 60000}).Draw(rt, "ttl") }
	nc := rapid.IntRange(1, 4).Draw(rt, "callers")
	for c := 0; c < nc; c++ {
		no := rapid.IntRange(1, 6).Draw(rt, "ops")
		ops := make([]cOp, no)
		for i := range ops {
			kinds := []string{"get", "get", "get", "multi", "mgetcache", "docache-mget"}
			if forms {
				kinds = []string{"get", "get", "getrange", "getrange", "multi", "multi", "mgetcache", "docache-mget"}
			}
			op := cOp{GapUs: rapid.IntRange(0, 6000).Draw(rt, "gap"), Kind: rapid.SampledFrom(kinds).Draw(rt, "kind")}
			switch op.Kind {
			case "get", "getrange":
				op.Keys = []string{rapid.SampledFrom(keys).Draw(rt, "key")}
				op.TTLMs = []int{ttl()}
				op.Static = rapid.IntRange(0, 4).Draw(rt, "static") == 0
			case "multi":
				n := rapid.IntRange(1, 5).Draw(rt, "n")
				op.Static = rapid.IntRange(0, 4).Draw(rt, "static") == 0
				for k := 0; k < n; k++ {
					op.Keys = append(op.Keys, rapid.SampledFrom(keys).Draw(rt, "key"))
					op.TTLMs = append(op.TTLMs, ttl())
				}
				if forms && rapid.Bool().Draw(rt, "mixedStatic") {
					op.Statics = make([]bool, n)
					for k := range op.Statics {
						op.Statics[k] = rapid.Bool().Draw(rt, "staticMember")
					}
				}
			default:
				n := rapid.IntRange(1, 5).Draw(rt, "n")
				for k := 0; k < n; k++ {
					op.Keys = append(op.Keys, rapid.SampledFrom(keys).Draw(rt, "key"))
				}
				op.TTLMs = []int{ttl()}
			}
			ops[i] = op
		}
		p.Callers = append(p.Callers, ops)
	}
	ne := rapid.IntRange(0, 8).Draw(rt, "ext")
	for i := 0; i < ne; i++ {
		e := cExt{AtUs: rapid.IntRange(0, 30000).Draw(rt, "extAt"), Kind: rapid.SampledFrom([]string{"set", "set", "set", "del", "flushall", "kill-conns"}).Draw(rt, "extKind"), Key: rapid.SampledFrom(keys).Draw(rt, "extKey")}
		if e.Kind == "set" && rapid.IntRange(0, 2).Draw(rt, "px") == 0 {
			e.PXMs = rapid.SampledFrom([]int{2, 8, 30, 200}).Draw(rt, "pxMs")
		}
		p.Ext = append(p.Ext, e)
	}
	return p
}

func cKey(p cPlan) string {
	b, _ := json.Marshal(p)
	return string(b)
}

// cTruthAt: the value of key that was current at some instant of [from, to] (virtual us).
// Returns the set of acceptable renderings ("" = missing).
func cTruth(writes []cWrite, key string, from, to int64) map[string]bool {
	cur := ""
	out := map[string]bool{}
	apply := func(w cWrite) {
		switch {
		case w.Kind == "kill-conns":
		case w.Key == "" && w.Kind == "flushall":
			cur = ""
		case w.Key != key:
		case w.Kind == "set":
			cur = key + "@" + strconv.Itoa(w.Ver)
		case w.Kind == "del":
			cur = ""
		case w.Kind == "expire":
			if cur == key+"@"+strconv.Itoa(-w.Ver) {
				cur = ""
			}
		}
	}
	i := 0
	for ; i < len(writes) && writes[i].AtUs < from; i++ {
		apply(writes[i])
	}
	out[cur] = true
	for ; i < len(writes) && writes[i].AtUs <= to; i++ {
		apply(writes[i])
		out[cur] = true
	}
	return out
}

func (r *cRead) rendered() string {
	if r.Nil {
		return ""
	}
	return r.Val
}
