package props

// C30 "Lua scripts run at most once per Exec".
//
// One *rueidis.Lua object (every constructor x WithLoadSHA1) is shared by 1-3 callers that run a
// history of Exec / ExecMulti calls against one fake server while "another client" flushes or
// pre-loads the script cache and SCRIPT LOAD fails by plan. The oracle reads the server's frame
// log, its log of script body executions (srv.LuaRuns) and the VEXEC log; every call carries a
// unique id in ARGV[1] (or KEYS[1]) so that frames and body runs can be attributed to calls.

import (
	"context"
	"crypto/sha1"
	"encoding/hex"
	"encoding/json"
	"fmt"
	"runtime/debug"
	"strconv"
	"strings"
	"sync"
	"testing"
	"time"

	"github.com/redis/rueidis"
	"pgregory.net/rapid"
	"verif/harness/sim"
	"verifkit/bubble"
	"verifkit/fakeredis"
	"verifkit/resp"
	"verifkit/stat"
)

type c30Script struct {
	ID    string
	Body  string
	Write bool // calls a write command: fails when run through EVAL_RO / EVALSHA_RO
}

// Every body makes its execution observable (srv.LuaRuns logs each run; the VEXEC ones also
// leave a non-idempotent mark) and returns something that depends on the call's own arguments.
var c30Scripts = []c30Script{
	{"echo", "return {KEYS, ARGV}", false},
	{"count", "return #KEYS * 10 + #ARGV", false},
	{"get", "if KEYS[1] then return redis.call('GET', KEYS[1]) end return false", false},
	{"status", "return redis.status_reply('FINE')", false},
	{"errreply", "return redis.error_reply('XFAIL planned')", false},
	{"runtime", "error('boom')", false},
	{"vexec", "return redis.call('VEXEC', ARGV[1] or KEYS[1] or 'none')", true},
	{"vexec-echo", "redis.call('VEXEC', ARGV[1] or KEYS[1] or 'none'); return {KEYS, ARGV}", true},
	{"vexec-errreply", "redis.call('VEXEC', ARGV[1] or KEYS[1] or 'none'); return redis.error_reply('XFAIL planned')", true},
	{"vexec-runtime", "redis.call('VEXEC', ARGV[1] or KEYS[1] or 'none'); error('boom')", true},
}

func c30ScriptByID(id string) c30Script {
	for _, s := range c30Scripts {
		if s.ID == id {
			return s
		}
	}
	panic("harness: unknown script " + id)
}

type c30Exec struct {
	UID  string   `json:"uid"`
	Keys []string `json:"keys"`
	Args []string `json:"args"`
	Seed *string  `json:"seed,omitempty"` // stored under Keys[0] before the run
}

type c30Op struct {
	GapUs int       `json:"gap_us"`
	Multi bool      `json:"multi"` // ExecMulti(Execs...) instead of Exec(Execs[0])
	Execs []c30Exec `json:"execs"`
}

type c30Ext struct {
	AtUs int    `json:"at_us"`
	Kind string `json:"kind"` // flush | load | loadfail
	N    int    `json:"n,omitempty"`
}

type c30Plan struct {
	Ctor      string    `json:"ctor"` // plain ro nosha ro-nosha retryable nosha-retryable
	LoadSHA   bool      `json:"load_sha"`
	OptFalse  bool      `json:"opt_false,omitempty"` // WithLoadSHA1(false) passed explicitly
	Script    string    `json:"script"`
	RESP2     bool      `json:"resp2"`
	LatUs     int       `json:"lat_us"`     // server latency of EVAL*/EVALSHA* (burst starts only)
	PreLoaded bool      `json:"pre_loaded"` // the server knows the script before the first call
	LoadFail  int       `json:"load_fail"`  // the next n SCRIPT LOAD of the client fail
	Callers   [][]c30Op `json:"callers"`
	Ext       []c30Ext  `json:"ext,omitempty"`
}

func (p c30Plan) readOnly() bool { return p.Ctor == "ro" || p.Ctor == "ro-nosha" }
func (p c30Plan) noSha() bool {
	return p.Ctor == "nosha" || p.Ctor == "ro-nosha" || p.Ctor == "nosha-retryable"
}

func c30New(p c30Plan, body string) *rueidis.Lua {
	var opts []rueidis.LuaOption
	if p.LoadSHA {
		opts = append(opts, rueidis.WithLoadSHA1(true))
	} else if p.OptFalse {
		opts = append(opts, rueidis.WithLoadSHA1(false))
	}
	switch p.Ctor {
	case "plain":
		return rueidis.NewLuaScript(body, opts...)
	case "ro":
		return rueidis.NewLuaScriptReadOnly(body, opts...)
	case "nosha":
		return rueidis.NewLuaScriptNoSha(body)
	case "ro-nosha":
		return rueidis.NewLuaScriptReadOnlyNoSha(body)
	case "retryable":
		return rueidis.NewLuaScriptRetryable(body, opts...)
	case "nosha-retryable":
		return rueidis.NewLuaScriptNoShaRetryable(body)
	}
	panic("harness: unknown constructor " + p.Ctor)
}

type c30Call struct {
	Caller, Op int
	Start, End int64 // world event sequence numbers: the call's frames have Start < seq <= End
	Results    []rueidis.RedisResult
	Done       bool
	Panic      string // Exec / ExecMulti panicked in the caller's goroutine
}

func c30IsEvalFamily(name string) bool {
	switch strings.ToUpper(name) {
	case "EVAL", "EVAL_RO", "EVALSHA", "EVALSHA_RO":
		return true
	}
	return false
}

type c30Obs struct {
	Calls   []*c30Call
	Events  []fakeredis.Event
	Runs    []fakeredis.LuaRun
	VExecs  []fakeredis.ExecEntry
	Pending int
	CloseOK bool
}

func c30Run(t *testing.T, plan c30Plan) (res bubble.Result, obs c30Obs) {
	var mu sync.Mutex
	for ci, ops := range plan.Callers {
		for oi := range ops {
			obs.Calls = append(obs.Calls, &c30Call{Caller: ci, Op: oi})
		}
	}
	idx := func(ci, oi int) *c30Call {
		n := 0
		for c := 0; c < ci; c++ {
			n += len(plan.Callers[c])
		}
		return obs.Calls[n+oi]
	}
	body := c30ScriptByID(plan.Script).Body
	res = bubble.Run(t, func() {
		w := fakeredis.NewWorld()
		srv := w.NewServer("127.0.0.1:6379")
		if plan.LatUs > 0 {
			// see c01Latency: with the ring queue only the first command of a burst may be delayed
			srv.Hooks.Latency = func(c *fakeredis.Conn, req int, argv []string) time.Duration {
				if c.BurstIdx == 0 && c30IsEvalFamily(argv[0]) {
					return time.Duration(plan.LatUs) * time.Microsecond
				}
				return 0
			}
		}
		for _, ops := range plan.Callers {
			for _, op := range ops {
				for _, e := range op.Execs {
					if e.Seed != nil && len(e.Keys) > 0 {
						srv.Do("SET", e.Keys[0], *e.Seed)
					}
				}
			}
		}
		if plan.PreLoaded {
			srv.Do("SCRIPT", "LOAD", body)
		}
		w.Lock()
		srv.ScriptLoadFail = plan.LoadFail
		w.Unlock()
		opt := sim.Option(w, "127.0.0.1:6379")
		opt.ForceSingleClient = true
		if queueLabel() == "ring" {
			opt.WriteBufferEachConn = 1 << 20
		}
		if plan.RESP2 {
			opt.AlwaysRESP2 = true
			opt.DisableCache = true
		}
		client, err := rueidis.NewClient(opt)
		if err != nil {
			panic(fmt.Sprintf("harness: NewClient failed: %v", err))
		}
		script := c30New(plan, body)
		seqNow := func() int64 {
			w.Lock()
			n := int64(len(w.Events))
			w.Unlock()
			return n
		}
		var wg sync.WaitGroup
		for ci, ops := range plan.Callers {
			wg.Add(1)
			go func(ci int, ops []c30Op) {
				defer wg.Done()
				for oi, op := range ops {
					time.Sleep(time.Duration(op.GapUs) * time.Microsecond)
					r := idx(ci, oi)
					ctx := context.Background()
					start := seqNow()
					var out []rueidis.RedisResult
					panicked := ""
					func() {
						defer func() {
							if p := recover(); p != nil {
								panicked = fmt.Sprintf("%v\n%s", p, debug.Stack())
							}
						}()
						if op.Multi {
							multi := make([]rueidis.LuaExec, len(op.Execs))
							for i, e := range op.Execs {
								multi[i] = rueidis.LuaExec{Keys: e.Keys, Args: e.Args}
							}
							out = script.ExecMulti(ctx, client, multi...)
						} else {
							out = []rueidis.RedisResult{script.Exec(ctx, client, op.Execs[0].Keys, op.Execs[0].Args)}
						}
					}()
					end := seqNow()
					mu.Lock()
					r.Start, r.End, r.Results, r.Done, r.Panic = start, end, out, true, panicked
					mu.Unlock()
				}
			}(ci, ops)
		}
		for _, e := range plan.Ext {
			e := e
			time.AfterFunc(time.Duration(e.AtUs)*time.Microsecond, func() {
				switch e.Kind {
				case "flush":
					srv.Do("SCRIPT", "FLUSH")
				case "load":
					srv.Do("SCRIPT", "LOAD", body)
				case "loadfail":
					w.Lock()
					srv.ScriptLoadFail = e.N
					w.Unlock()
				}
			})
		}
		finished := sim.WaitTimeout(&wg, 10*time.Minute)
		if !finished {
			mu.Lock()
			for _, r := range obs.Calls {
				if !r.Done {
					obs.Pending++
				}
			}
			mu.Unlock()
		}
		obs.CloseOK = sim.CallTimeout(time.Minute, client.Close)
		w.Stop()
		obs.Events = w.Snapshot()
		w.Lock()
		obs.Runs = append([]fakeredis.LuaRun(nil), srv.LuaRuns...)
		obs.VExecs = append([]fakeredis.ExecEntry(nil), srv.ExecLog...)
		w.Unlock()
		time.Sleep(5 * time.Second)
		if !finished {
			sim.WaitTimeout(&wg, time.Minute)
		}
	})
	return
}

// ---- generator

var c30Specials = []string{"", "", "k1", "k2", "a b", "\r\n", "\x00", "{tag}x", "\xff\xfe", "日本", "-ERR x", "$5", "*1\r\n$1\r\nx\r\n", "NOSCRIPT"}

func c30Str(rt *rapid.T, label string) string {
	if rapid.Bool().Draw(rt, label+"Special") {
		return rapid.SampledFrom(c30Specials).Draw(rt, label)
	}
	return string(rapid.SliceOfN(rapid.Byte(), 0, 8).Draw(rt, label))
}

func genC30Plan(rt *rapid.T) c30Plan {
	var p c30Plan
	p.Ctor = rapid.SampledFrom([]string{"plain", "plain", "ro", "ro", "nosha", "ro-nosha", "retryable", "nosha-retryable"}).Draw(rt, "ctor")
	if !p.noSha() {
		switch rapid.IntRange(0, 4).Draw(rt, "loadOpt") {
		case 0, 1:
			p.LoadSHA = true
		case 2:
			p.OptFalse = true
		}
	}
	var ids []string
	for _, s := range c30Scripts {
		if s.Write && p.readOnly() {
			if s.ID == "vexec" || s.ID == "vexec-echo" { // a read-only script that tries to write: a caller's mistake, still at most one run
				ids = append(ids, s.ID)
			}
			continue
		}
		ids = append(ids, s.ID)
		if s.Write || s.ID == "echo" {
			ids = append(ids, s.ID)
		}
	}
	p.Script = rapid.SampledFrom(ids).Draw(rt, "script")
	p.RESP2 = rapid.IntRange(0, 3).Draw(rt, "resp2") == 0
	if !p.LoadSHA {
		// with WithLoadSHA1 Exec holds a sync.RWMutex across its SCRIPT LOAD round trip; callers queued on that
		// mutex are not durably blocked, so a reply that needs virtual time would freeze the bubble
		p.LatUs = rapid.SampledFrom([]int{0, 0, 0, 300, 2000}).Draw(rt, "lat")
	}
	p.PreLoaded = rapid.IntRange(0, 2).Draw(rt, "preLoaded") == 0
	p.LoadFail = rapid.SampledFrom([]int{0, 0, 0, 1, 2}).Draw(rt, "loadFail")
	total := rapid.IntRange(1, 6).Draw(rt, "calls")
	nc := rapid.IntRange(1, min(3, total)).Draw(rt, "callers")
	p.Callers = make([][]c30Op, nc)
	uid := 0
	for i := 0; i < total; i++ {
		ci := i
		if i >= nc {
			ci = rapid.IntRange(0, nc-1).Draw(rt, "caller")
		}
		op := c30Op{GapUs: rapid.SampledFrom([]int{0, 0, 100, 500, 1500}).Draw(rt, "gap"), Multi: rapid.IntRange(0, 2).Draw(rt, "multi") == 0}
		n := 1
		if op.Multi {
			n = rapid.IntRange(1, 8).Draw(rt, "entries")
		}
		bare := false
		for k := 0; k < n; k++ {
			uid++
			e := c30Exec{UID: "u" + strconv.Itoa(uid), Keys: []string{}, Args: []string{}}
			nk := rapid.IntRange(0, 3).Draw(rt, "nkeys")
			na := rapid.IntRange(0, 3).Draw(rt, "nargs")
			if nk == 0 && na == 0 && (nc > 1 || bare) {
				// a call without keys and arguments carries no id on the wire; it is attributed by its time window,
				// which is unambiguous only for a single caller and one such entry per ExecMulti
				if rapid.Bool().Draw(rt, "keyNotArg") {
					nk = 1
				} else {
					na = 1
				}
			}
			for j := 0; j < nk; j++ {
				e.Keys = append(e.Keys, c30Str(rt, "key"))
			}
			for j := 0; j < na; j++ {
				e.Args = append(e.Args, c30Str(rt, "arg"))
			}
			switch {
			case na > 0:
				e.Args[0] = e.UID + ":" + e.Args[0]
			case nk > 0:
				e.Keys[0] = e.UID + ":" + e.Keys[0]
			default:
				bare = true
			}
			if p.Script == "get" && nk > 0 && rapid.Bool().Draw(rt, "seeded") {
				v := c30Str(rt, "seed")
				e.Seed = &v
			}
			op.Execs = append(op.Execs, e)
		}
		p.Callers[ci] = append(p.Callers[ci], op)
	}
	ne := rapid.IntRange(0, 4).Draw(rt, "ext")
	for i := 0; i < ne; i++ {
		e := c30Ext{AtUs: rapid.SampledFrom([]int{0, 50, 100, 300, 500, 600, 1000, 1500, 2000, 3000, 4000}).Draw(rt, "extAt"), Kind: rapid.SampledFrom([]string{"flush", "flush", "load", "loadfail"}).Draw(rt, "extKind")}
		if e.Kind == "loadfail" {
			e.N = rapid.IntRange(1, 2).Draw(rt, "extN")
		}
		p.Ext = append(p.Ext, e)
	}
	return p
}

// ---- oracle

type c30Wire struct {
	Cmd      string
	Seq      int64 // recv
	Conn     int
	Req      int
	Argv     []string
	Reply    *resp.Value
	ReplySeq int64
	Ran      int
}

type c30Ref struct{ Call, Entry int }

func c30Sha(body string) string {
	h := sha1.Sum([]byte(body))
	return hex.EncodeToString(h[:])
}

func c30IsNoScript(v *resp.Value) bool {
	return v != nil && v.T == '-' && strings.HasPrefix(v.S, "NOSCRIPT")
}

// c30Model is what the script body returns for the entry's keys and arguments; exact=false means only
// "an error reply" is known (texts of interpreter errors are not byte-exact in the fake).
func c30Model(plan c30Plan, e c30Exec, seeds map[string]string) (v resp.Value, exact bool) {
	s := c30ScriptByID(plan.Script)
	if s.Write && plan.readOnly() {
		return resp.Err("write from a read-only script"), false
	}
	echo := resp.Arr(resp.Bulks(e.Keys...), resp.Bulks(e.Args...))
	switch plan.Script {
	case "echo", "vexec-echo":
		return echo, true
	case "count":
		return resp.Int(int64(len(e.Keys)*10 + len(e.Args))), true
	case "get":
		if len(e.Keys) > 0 {
			if sv, ok := seeds[e.Keys[0]]; ok {
				return resp.Bulk(sv), true
			}
		}
		return resp.Null(), true
	case "status":
		return resp.Simple("FINE"), true
	case "errreply", "vexec-errreply":
		return resp.Err("XFAIL planned"), true
	case "runtime", "vexec-runtime":
		return resp.Err("boom"), false
	case "vexec":
		tag := ""
		switch {
		case len(e.Args) > 0:
			tag = e.Args[0]
		case len(e.Keys) > 0:
			tag = e.Keys[0]
		default:
			return resp.Bulk("VEXEC:none:?"), false // not an error, but the count depends on earlier bare calls: judged by the server's reply only
		}
		return resp.Bulk("VEXEC:" + tag + ":1"), true
	}
	panic("harness: no model for " + plan.Script)
}

func c30Check(c *stat.Collector, rt stat.Fataler, plan c30Plan, res bubble.Result, obs c30Obs) (nt bool, classes []string, inconclusive string) {
	if obs.Pending > 0 || res.Deadlock {
		c.Fail(rt, "C30.no-hang", fmt.Sprintf("%d calls never returned (%s)", obs.Pending, res), plan)
	}
	if res.Panic != nil {
		c.Fail(rt, "C30.no-panic", res.String(), plan)
	}
	if res.Leak {
		c.Fail(rt, "C30.no-leak", res.String(), plan)
	}
	if !obs.CloseOK {
		c.Fail(rt, "C30.no-hang", "Client.Close did not return within a virtual minute", plan)
	}
	for _, cl := range obs.Calls {
		if cl.Panic != "" {
			c.Fail(rt, "C30.no-panic", fmt.Sprintf("caller %d op %d panicked: %s", cl.Caller, cl.Op, cl.Panic), plan)
		}
	}
	body := c30ScriptByID(plan.Script).Body
	sha := c30Sha(body)
	script := c30ScriptByID(plan.Script)

	// plan index
	byUID := map[string]c30Ref{}
	seeds := map[string]string{}
	var bare []c30Ref
	calls := obs.Calls
	opOf := func(ci int) c30Op { return plan.Callers[calls[ci].Caller][calls[ci].Op] }
	maxMulti := 0
	for ci := range calls {
		op := opOf(ci)
		if op.Multi && len(op.Execs) > maxMulti {
			maxMulti = len(op.Execs)
		}
		for ei, e := range op.Execs {
			byUID[e.UID] = c30Ref{ci, ei}
			if len(e.Keys) == 0 && len(e.Args) == 0 {
				bare = append(bare, c30Ref{ci, ei})
			}
			if e.Seed != nil && len(e.Keys) > 0 {
				seeds[e.Keys[0]] = *e.Seed
			}
		}
	}
	entryOf := func(r c30Ref) c30Exec { return opOf(r.Call).Execs[r.Entry] }

	// server log
	type rk struct{ conn, req int }
	replies := map[rk]*fakeredis.Event{}
	for i := range obs.Events {
		e := &obs.Events[i]
		if e.Kind == "reply" && e.Conn >= 0 {
			replies[rk{e.Conn, e.Req}] = e
			if e.Reply != nil && e.Reply.IsErr() && strings.Contains(e.Reply.S, "FAKEREDIS-LUA-UNSUPPORTED") {
				return false, nil, "lua-unsupported"
			}
		}
	}
	var wires []*c30Wire // EVAL family
	var loads []*c30Wire // SCRIPT LOAD
	perEntry := map[c30Ref][]*c30Wire{}
	for i := range obs.Events {
		e := &obs.Events[i]
		if e.Kind != "recv" || e.Conn < 0 || len(e.Argv) == 0 {
			continue
		}
		name := strings.ToUpper(e.Argv[0])
		wr := &c30Wire{Cmd: name, Seq: e.Seq, Conn: e.Conn, Req: e.Req, Argv: e.Argv}
		if re := replies[rk{e.Conn, e.Req}]; re != nil {
			wr.Reply, wr.ReplySeq = re.Reply, re.Seq
		}
		switch {
		case c30IsEvalFamily(name):
			wires = append(wires, wr)
			if len(e.Argv) < 3 {
				c.Fail(rt, "C30.own-arguments", fmt.Sprintf("malformed frame %q", trunc(e.Argv)), plan)
			}
			nk, err := strconv.Atoi(e.Argv[2])
			if err != nil || nk < 0 || 3+nk > len(e.Argv) {
				c.Fail(rt, "C30.own-arguments", fmt.Sprintf("frame %q: bad numkeys", trunc(e.Argv)), plan)
			}
			keys, args := e.Argv[3:3+nk], e.Argv[3+nk:]
			var ref c30Ref
			found := false
			switch {
			case len(args) > 0 || len(keys) > 0:
				first := ""
				if len(args) > 0 {
					first = args[0]
				} else {
					first = keys[0]
				}
				id, _, _ := strings.Cut(first, ":")
				ref, found = byUID[id]
			default:
				for _, b := range bare {
					if calls[b.Call].Done && calls[b.Call].Start < e.Seq && e.Seq <= calls[b.Call].End {
						ref, found = b, true
					}
				}
			}
			if !found {
				c.Fail(rt, "C30.own-arguments", fmt.Sprintf("server received %q which carries the keys/arguments of no call", trunc(e.Argv)), plan)
			}
			want := entryOf(ref)
			if strings.Join(keys, "\x00") != strings.Join(want.Keys, "\x00") || len(keys) != len(want.Keys) ||
				strings.Join(args, "\x00") != strings.Join(want.Args, "\x00") || len(args) != len(want.Args) {
				c.Fail(rt, "C30.own-arguments", fmt.Sprintf("server received %q for call %s whose keys=%q args=%q", trunc(e.Argv), want.UID, want.Keys, want.Args), plan)
			}
			if cl := calls[ref.Call]; !cl.Done || !(cl.Start < e.Seq && e.Seq <= cl.End) {
				c.Fail(rt, "C30.own-arguments", fmt.Sprintf("frame %q of call %s arrived outside the call", trunc(e.Argv), want.UID), plan)
			}
			if strings.HasPrefix(name, "EVALSHA") {
				if !strings.EqualFold(e.Argv[1], sha) {
					c.Fail(rt, "C30.own-arguments", fmt.Sprintf("%s sent with sha %q, the script's SHA-1 is %s", name, e.Argv[1], sha), plan)
				}
			} else if e.Argv[1] != body {
				c.Fail(rt, "C30.own-arguments", fmt.Sprintf("%s sent with body %q, the script is %q", name, e.Argv[1], body), plan)
			}
			perEntry[ref] = append(perEntry[ref], wr)
		case name == "SCRIPT" && len(e.Argv) > 1 && strings.EqualFold(e.Argv[1], "LOAD"):
			loads = append(loads, wr)
			if len(e.Argv) != 3 || e.Argv[2] != body {
				c.Fail(rt, "C30.own-arguments", fmt.Sprintf("SCRIPT LOAD sent with %q, the script is %q", trunc(e.Argv[2:]), body), plan)
			}
		}
	}
	// body executions -> frames
	for _, r := range obs.Runs {
		if r.Conn < 0 {
			continue
		}
		var hit *c30Wire
		for _, wr := range wires {
			if wr.Conn == r.Conn && wr.Seq <= r.Seq && (hit == nil || wr.Seq > hit.Seq) {
				hit = wr
			}
		}
		if hit == nil {
			c.Fail(rt, "C30.body-at-most-once", fmt.Sprintf("script body ran through %s on connection %d without a frame of any call", r.Cmd, r.Conn), plan)
		}
		hit.Ran++
	}

	// ---- clauses over all frames
	for _, wr := range wires {
		ro := strings.HasSuffix(wr.Cmd, "_RO")
		if plan.readOnly() && !ro {
			c.Fail(rt, "C30.readonly-uses-ro-commands", fmt.Sprintf("read-only constructor %s sent %s", plan.Ctor, wr.Cmd), plan)
		}
		if !plan.readOnly() && ro {
			c.Fail(rt, "C30.readonly-uses-ro-commands", fmt.Sprintf("constructor %s (documented to use EVALSHA and EVAL) sent %s", plan.Ctor, wr.Cmd), plan)
		}
		if plan.noSha() && strings.HasPrefix(wr.Cmd, "EVALSHA") {
			c.Fail(rt, "C30.nosha-never-evalsha", fmt.Sprintf("NoSha constructor %s sent %s", plan.Ctor, wr.Cmd), plan)
		}
	}
	if plan.noSha() && len(loads) > 0 {
		c.Fail(rt, "C30.nosha-never-evalsha", fmt.Sprintf("NoSha constructor %s sent SCRIPT LOAD %d times (documented: no script loading)", plan.Ctor, len(loads)), plan)
	}

	// ---- SCRIPT LOAD accounting
	firstOK := int64(-1) // reply seq of the first successful SCRIPT LOAD of the client
	failedLoad := false
	for _, l := range loads {
		if l.Reply == nil {
			continue
		}
		if l.Reply.IsErr() {
			failedLoad = true
		} else if firstOK < 0 || l.ReplySeq < firstOK {
			firstOK = l.ReplySeq
		}
	}
	inWin := func(ci int, seq int64) bool { return calls[ci].Done && calls[ci].Start < seq && seq <= calls[ci].End }
	mayLoad := func(ci int) bool { // by kind of call only
		if plan.noSha() {
			return false
		}
		return opOf(ci).Multi || plan.LoadSHA
	}
	// known: the instant from which the Lua object certainly knows its SHA: for each successful load the latest end of
	// the calls that may own it; the earliest of those.
	known := int64(-1)
	for _, l := range loads {
		if l.Reply == nil || l.Reply.IsErr() {
			continue
		}
		latest := int64(-1)
		for ci := range calls {
			if mayLoad(ci) && inWin(ci, l.Seq) && calls[ci].End > latest {
				latest = calls[ci].End
			}
		}
		if latest >= 0 && (known < 0 || latest < known) {
			known = latest
		}
	}
	if !plan.noSha() {
		// every SCRIPT LOAD needs its own call that may send one: an ExecMulti (documented to load on every call), or with
		// WithLoadSHA1 an Exec that started before the SHA was known
		adj := make([][]int, len(loads))
		for li, l := range loads {
			for ci := range calls {
				if !inWin(ci, l.Seq) {
					continue
				}
				if opOf(ci).Multi || (plan.LoadSHA && (known < 0 || calls[ci].Start < known)) {
					adj[li] = append(adj[li], ci)
				}
			}
		}
		matchCall := map[int]int{}
		var try func(li int, seen map[int]bool) bool
		try = func(li int, seen map[int]bool) bool {
			for _, ci := range adj[li] {
				if seen[ci] {
					continue
				}
				seen[ci] = true
				if prev, taken := matchCall[ci]; !taken || try(prev, seen) {
					matchCall[ci] = li
					return true
				}
			}
			return false
		}
		for li, l := range loads {
			if !try(li, map[int]bool{}) {
				clause, why := "C30.load-until-first-success", "was sent although the SHA-1 had already been obtained and no ExecMulti accounts for it"
				if !plan.LoadSHA {
					clause, why = "C30.load-only-with-option", "was sent by Exec without WithLoadSHA1 (only ExecMulti loads the script then)"
				}
				c.Fail(rt, clause, fmt.Sprintf("SCRIPT LOAD #%d (event seq %d, reply %v) %s; first successful load replied at seq %d, SHA known to the client from seq %d", li, l.Seq, l.Reply, why, firstOK, known), plan)
			}
		}
	}
	if plan.LoadSHA {
		for _, wr := range wires {
			if strings.HasPrefix(wr.Cmd, "EVALSHA") && (firstOK < 0 || wr.Seq < firstOK) {
				c.Fail(rt, "C30.sha-from-script-load", fmt.Sprintf("%s was sent (seq %d) before any SCRIPT LOAD succeeded (first success at seq %d): with WithLoadSHA1 the SHA-1 comes from the server", wr.Cmd, wr.Seq, firstOK), plan)
			}
		}
	}
	loadFailedIn := func(ci int) bool {
		for _, l := range loads {
			if l.Reply != nil && l.Reply.IsErr() && inWin(ci, l.Seq) {
				return true
			}
		}
		return false
	}

	// ---- per call
	vexecCount := map[string]int{}
	for _, v := range obs.VExecs {
		vexecCount[v.UID]++
	}
	fallback := false
	overlap := false
	for i, a := range calls {
		for _, b := range calls[i+1:] {
			if a.Caller != b.Caller && a.Done && b.Done && a.Start < b.End && b.Start < a.End {
				overlap = true
			}
		}
	}
	for ci, cl := range calls {
		if !cl.Done {
			continue
		}
		op := opOf(ci)
		where := fmt.Sprintf("caller %d op %d", cl.Caller, cl.Op)
		if len(cl.Results) != len(op.Execs) {
			c.Fail(rt, "C30.one-result-per-entry", fmt.Sprintf("%s: ExecMulti with %d entries returned %d results", where, len(op.Execs), len(cl.Results)), plan)
		}
		for ei, e := range op.Execs {
			ws := perEntry[c30Ref{ci, ei}]
			what := fmt.Sprintf("%s entry %d (%s)", where, ei, e.UID)
			ran := 0
			var seq []string
			for _, wr := range ws {
				ran += wr.Ran
				seq = append(seq, wr.Cmd)
			}
			if ran > 1 {
				c.Fail(rt, "C30.body-at-most-once", fmt.Sprintf("%s: the script body ran %d times (frames %v)", what, ran, seq), plan)
			}
			if script.Write && !plan.readOnly() {
				tag := "none"
				if len(e.Args) > 0 {
					tag = e.Args[0]
				} else if len(e.Keys) > 0 {
					tag = e.Keys[0]
				}
				if tag != "none" && vexecCount[tag] > 1 {
					c.Fail(rt, "C30.body-at-most-once", fmt.Sprintf("%s: the script's VEXEC was executed %d times", what, vexecCount[tag]), plan)
				}
			}
			loadFailed := !plan.noSha() && (op.Multi || plan.LoadSHA) && loadFailedIn(ci)
			if op.Multi {
				if len(ws) > 1 {
					c.Fail(rt, "C30.body-at-most-once", fmt.Sprintf("%s: ExecMulti sent %d frames for one entry: %v", what, len(ws), seq), plan)
				}
				if len(ws) == 0 && !loadFailed {
					c.Fail(rt, "C30.own-reply", fmt.Sprintf("%s: ExecMulti sent nothing for this entry although no SCRIPT LOAD failed", what), plan)
				}
			} else if plan.noSha() {
				if len(ws) != 1 {
					c.Fail(rt, "C30.body-at-most-once", fmt.Sprintf("%s: a NoSha Exec sends exactly one EVAL, saw %v", what, seq), plan)
				}
			} else {
				switch {
				case len(ws) == 0:
					if !loadFailed {
						c.Fail(rt, "C30.evalsha-first", fmt.Sprintf("%s: Exec sent neither EVALSHA nor EVAL although no SCRIPT LOAD of the call failed", what), plan)
					}
				case len(ws) > 2:
					c.Fail(rt, "C30.eval-only-after-noscript", fmt.Sprintf("%s: Exec sent %v", what, seq), plan)
				default:
					if !strings.HasPrefix(ws[0].Cmd, "EVALSHA") {
						c.Fail(rt, "C30.evalsha-first", fmt.Sprintf("%s: Exec started with %s, frames %v", what, ws[0].Cmd, seq), plan)
					}
					if len(ws) == 2 {
						if strings.HasPrefix(ws[1].Cmd, "EVALSHA") {
							c.Fail(rt, "C30.eval-only-after-noscript", fmt.Sprintf("%s: Exec sent %v", what, seq), plan)
						}
						if !c30IsNoScript(ws[0].Reply) || ws[1].Seq < ws[0].ReplySeq {
							c.Fail(rt, "C30.eval-only-after-noscript", fmt.Sprintf("%s: %s followed the reply %v to %s (not NOSCRIPT)", what, ws[1].Cmd, ws[0].Reply, ws[0].Cmd), plan)
						}
						fallback = true
					} else if c30IsNoScript(ws[0].Reply) {
						c.Fail(rt, "C30.fallback-after-noscript", fmt.Sprintf("%s: %s was answered NOSCRIPT and Exec did not fall back to EVAL", what, ws[0].Cmd), plan)
					}
				}
			}
			// the result
			if ei >= len(cl.Results) {
				continue
			}
			got := cl.Results[ei]
			if len(ws) == 0 {
				if got.Error() == nil {
					c.Fail(rt, "C30.own-reply", fmt.Sprintf("%s: nothing was sent for the entry, yet the result is the value %s", what, c30ResultString(got)), plan)
				}
				continue
			}
			last := ws[len(ws)-1]
			if last.Reply == nil {
				c.Fail(rt, "C30.own-reply", fmt.Sprintf("harness: no reply logged for %q", trunc(last.Argv)), plan)
			}
			if err := sim.MatchResult(got, *last.Reply); err != nil {
				c.Fail(rt, "C30.own-reply", fmt.Sprintf("%s: the result is not the server's reply to %s of this entry: %v", what, last.Cmd, err), plan)
			}
			if ran == 1 {
				want, exact := c30Model(plan, e, seeds)
				if exact {
					if err := sim.MatchResult(got, want); err != nil {
						c.Fail(rt, "C30.script-return", fmt.Sprintf("%s: the result is not what the script returns for keys=%q args=%q: %v", what, e.Keys, e.Args, err), plan)
					}
				} else if want.IsErr() {
					if err := got.Error(); err == nil || !sim.IsReplyError(err) || rueidis.IsRedisNil(err) {
						c.Fail(rt, "C30.script-return", fmt.Sprintf("%s: the script fails, the result is %s", what, c30ResultString(got)), plan)
					}
				}
			}
		}
	}

	// ---- classes
	classes = append(classes, "ctor:"+plan.Ctor, "script:"+plan.Script)
	for k, v := range map[string]bool{
		"load-sha": plan.LoadSHA, "noscript-fallback": fallback, "script-load-failed": failedLoad, "multi>=3": maxMulti >= 3,
		"multi": maxMulti > 0, "bare-call": len(bare) > 0, "resp2": plan.RESP2, "latency": plan.LatUs > 0, "overlap": overlap,
		"pre-loaded": plan.PreLoaded, "script-load-seen": len(loads) > 0,
	} {
		if v {
			classes = append(classes, k)
		}
	}
	for _, e := range plan.Ext {
		classes = append(classes, "ext:"+e.Kind)
	}
	return fallback || failedLoad || maxMulti >= 3, classes, ""
}

func c30ResultString(r rueidis.RedisResult) string {
	m, err := r.ToMessage()
	if err != nil {
		return "error " + err.Error()
	}
	return m.String()
}

func TestVerif_C30_Lua(t *testing.T) {
	c := stat.For("C30", "lua-"+queueLabel()).Rule("plans in a synctest bubble, single client against the fake server (real Lua execution): one Lua object from {NewLuaScript, ...ReadOnly, ...NoSha, ...ReadOnlyNoSha, ...Retryable, ...NoShaRetryable} x WithLoadSHA1 (none/false/true where accepted) x 10 script bodies (echo KEYS/ARGV, counts, GET, status, error reply, runtime error, non-idempotent VEXEC variants, write attempt from a read-only script), shared by 1-3 callers running 1-6 Exec / ExecMulti(1-8) calls with 0-3 keys and 0-3 binary-safe arguments at generated instants, while another client flushes / pre-loads the script cache and SCRIPT LOAD fails 0-2 times at generated instants; RESP2/RESP3, optional server latency; oracle from the server's frame log, its log of body executions and the VEXEC log, frames attributed to calls by a unique id in ARGV[1]/KEYS[1]: body runs <= 1 per call/entry, EVALSHA first and EVAL only after that call's NOSCRIPT reply, NoSha never EVALSHA/SCRIPT LOAD, read-only only *_RO, SCRIPT LOAD only by ExecMulti or by Exec with WithLoadSHA1 before the SHA is known, no EVALSHA before a successful load with WithLoadSHA1, one result per ExecMulti entry, result == server's reply to the entry's last frame == model of the script's return value; non-trivial = a NOSCRIPT fallback happened, or a SCRIPT LOAD failed, or an ExecMulti with >= 3 entries")
	defer c.Flush()
	rapid.Check(t, func(rt *rapid.T) {
		plan := genC30Plan(rt)
		saveCase("c30", plan)
		res, obs := c30Run(t, plan)
		if res.Frozen {
			c.Inconclusive("virtual-clock-freeze")
			return
		}
		nt, classes, inc := c30Check(c, rt, plan, res, obs)
		if inc != "" {
			c.Inconclusive(inc)
			return
		}
		key, _ := json.Marshal(plan)
		c.Eval(nt, string(key), classes...)
		c.Sample(nt, func() any { return plan })
	})
}
