package props

import (
	"fmt"
	"slices"
	"sort"
	"strings"
	"testing"

	"pgregory.net/rapid"
	"verifkit/stat"
)

func cBasic(c *stat.Collector, rt stat.Fataler, prop string, plan cPlan, run cRun) {
	if run.Res.Panic != nil {
		c.Fail(rt, prop+".no-panic", run.Res.String(), plan)
	}
	if run.Pending > 0 || run.Res.Deadlock {
		c.Fail(rt, prop+".no-hang", fmt.Sprintf("%d cached reads never returned; %s", run.Pending, run.Res), plan)
	}
	if run.Res.Leak {
		c.Fail(rt, prop+".no-leak", run.Res.String(), plan)
	}
}

// cErrorsHaveCause: a failed or aborted request is not cached. The only failures of these plans are connection
// losses at known instants and cancelled contexts, so a read that returns an error must have been pending when a
// connection loss happened (or be a context error in a plan with cancellations): an error served later, with nothing
// failing during the call, is a failure that was kept in the cache.
func cErrorsHaveCause(c *stat.Collector, rt stat.Fataler, prop string, plan cPlan, run cRun) {
	keysOf := func(r *cRead) []string { return plan.Callers[r.Caller][r.Op].Keys }
	caused := map[*cRead]bool{}
	var failed []*cRead
	for _, r := range run.Reads {
		if r.Err == nil {
			continue
		}
		if isCtxErr(r.Err) {
			if !cHasCancel(plan) {
				c.Fail(rt, prop+".error-has-cause", fmt.Sprintf("caller %d op %d key %s returned %v although no context of the plan is ever cancelled", r.Caller, r.Op, r.Key, r.Err), plan)
			}
			continue
		}
		failed = append(failed, r)
		for _, a := range run.Aborts {
			// the server refused a fetch of one of the call's keys while the call was pending
			if a.AtUs >= r.StartUs-1 && a.AtUs <= r.EndUs+1 && slices.Contains(keysOf(r), a.Key) {
				caused[r] = true
			}
		}
		for _, w := range run.Writes {
			if w.Kind != "kill-conns" {
				continue
			}
			if w.AtUs >= r.StartUs-1 && w.AtUs <= r.EndUs+1 {
				caused[r] = true
			}
			// an idle connection in synchronous mode learns that it is dead from the next call that uses it:
			// the first call(s) after a loss may fail, i.e. when no call has completed between the loss and this one
			if w.AtUs < r.StartUs {
				discoverer := true
				for _, o := range run.Reads {
					if o != r && o.EndUs > w.AtUs && o.EndUs < r.StartUs {
						discoverer = false
					}
				}
				if discoverer {
					caused[r] = true
				}
			}
		}
	}
	// A request is in flight until the call that owns it returns (a batch waits for all its transactions), and whoever
	// reads one of its keys meanwhile waits for it and shares its error: propagate along overlapping failed calls.
	for changed := true; changed; {
		changed = false
		for _, r := range failed {
			if caused[r] {
				continue
			}
			for _, o := range failed {
				if caused[o] && r.StartUs <= o.EndUs+1 && o.StartUs <= r.EndUs+1 {
					shared := false
					for _, k := range keysOf(r) {
						shared = shared || slices.Contains(keysOf(o), k)
					}
					if shared {
						caused[r], changed = true, true
					}
				}
			}
		}
	}
	for _, r := range failed {
		if !caused[r] {
			c.Fail(rt, prop+".failed-flight-not-cached", fmt.Sprintf("caller %d op %d (%s) key %s, pending during [+%dus,+%dus], returned %v although nothing failed while it (or a failed call it could have waited for) was pending: the failure of an earlier request was served again; writes: %v aborts: %v", r.Caller, r.Op, plan.Callers[r.Caller][r.Op].Kind, r.Key, r.StartUs, r.EndUs, r.Err, cWritesOf(run.Writes, r.Key), run.Aborts), plan)
		}
	}
}

func cHasCancel(plan cPlan) bool {
	for _, ops := range plan.Callers {
		for _, op := range ops {
			if op.CancelUs > 0 {
				return true
			}
		}
	}
	return false
}

// cValues checks what C06 and C11 share: every value belongs to the key at its position and was
// current at some instant between the start and the end of the call (hits: not invalidated
// before the call started).
func cValues(c *stat.Collector, rt stat.Fataler, prop string, plan cPlan, run cRun) (hitsAfterInvalidation int, hits int) {
	for _, r := range run.Reads {
		if r.Pos < 0 || r.Err != nil {
			continue
		}
		where := fmt.Sprintf("caller %d op %d (%s) position %d key %s", r.Caller, r.Op, plan.Callers[r.Caller][r.Op].Kind, r.Pos, r.Key)
		if !r.Nil && !strings.HasPrefix(r.Val, r.Key+"@") {
			c.Fail(rt, prop+".reply-of-that-key", fmt.Sprintf("%s returned %q, which is not a value of that key (hit=%v)", where, r.Val, r.Hit), plan)
		}
		ok := cTruth(run.Writes, r.Key, r.StartUs-1, r.EndUs)
		if !ok[r.rendered()] {
			clause := prop + ".current-value"
			if r.Hit {
				clause = prop + ".no-stale-hit"
			}
			c.Fail(rt, clause, fmt.Sprintf("%s returned %q (hit=%v) during [+%dus,+%dus]; the key's values in that interval were %v; writes: %v", where, r.rendered(), r.Hit, r.StartUs, r.EndUs, keysOfSet(ok), cWritesOf(run.Writes, r.Key)), plan)
		}
		if r.Hit {
			hits++
			for _, w := range run.Writes {
				if (w.Key == r.Key || w.Kind == "flushall") && w.AtUs < r.StartUs {
					hitsAfterInvalidation++
					break
				}
			}
		}
	}
	return
}

func keysOfSet(m map[string]bool) []string {
	var out []string
	for k := range m {
		if k == "" {
			k = "<missing>"
		}
		out = append(out, k)
	}
	sort.Strings(out)
	return out
}

func cWritesOf(ws []cWrite, key string) []string {
	var out []string
	for _, w := range ws {
		if w.Key == key || w.Kind == "flushall" || w.Kind == "kill-conns" {
			out = append(out, fmt.Sprintf("+%dus %s v%d", w.AtUs, w.Kind, w.Ver))
		}
	}
	return out
}

// ---------------------------------------------------------------------------------- C06

func TestVerif_C06_NoStaleHits(t *testing.T) {
	c := stat.For("C06", "history-"+queueLabel()).Rule("histories in a bubble on one pipeline connection: 1-4 callers x 1-6 cached reads (DoCache, DoMultiCache, MGetCache, DoCache(MGET)) over 4 keys with client TTLs 5 ms-60 s and static TTL, tracking mode OPTIN/OPTOUT/BCAST, built-in LRU or NewSimpleCacheAdapter store, fetch latency up to 9 ms so invalidations arrive while entries are pending, and writes / deletes / FLUSHALL / expiring SETs / connection kills by other clients at generated instants; values carry key@version; oracle: a hit must be a value of exactly that key that had not been overwritten, deleted, flushed or expired strictly before the call started (all pushes sent at an earlier virtual instant have been processed), a fetched value must have been current during the call; non-trivial = a hit served after at least one earlier invalidation of that key")
	defer c.Flush()
	rapid.Check(t, func(rt *rapid.T) {
		plan := genCachePlanForms(rt, true)
		saveCase("c06", plan)
		run := cacheRun(t, plan)
		if run.Res.Frozen {
			c.Inconclusive("virtual-clock-freeze")
			return
		}
		cBasic(c, rt, "C06", plan, run)
		after, hits := cValues(c, rt, "C06", plan, run)
		cls := []string{"tracking=" + plan.Tracking, "store=" + plan.Store}
		if hits > 0 {
			cls = append(cls, "has-hit")
		}
		c.Eval(after > 0, cKey(plan), cls...)
		c.Sample(after > 0, func() any { return plan })
	})
}

// ---------------------------------------------------------------------------------- C11

func TestVerif_C11_PositionalBatches(t *testing.T) {
	c := stat.For("C11", "single-"+queueLabel()).Rule("same histories biased to batches: DoMultiCache / MGetCache / DoCache(MGET) of 1-5 keys with duplicates over keys in mixed cache states (hit, expired, pending by another caller, miss, missing key); oracle: position i (or map entry k) carries a value of key i that was current during the call, MGetCache's key set equals the distinct input keys, DoCache(MGET) returns one element per key; non-trivial = a batch with a duplicate key or with both hits and misses")
	defer c.Flush()
	rapid.Check(t, func(rt *rapid.T) {
		plan := genCachePlan(rt)
		for ci := range plan.Callers {
			for oi := range plan.Callers[ci] {
				op := &plan.Callers[ci][oi]
				if op.Kind == "get" && rapid.Bool().Draw(rt, "toBatch") {
					op.Kind = rapid.SampledFrom([]string{"multi", "mgetcache", "docache-mget"}).Draw(rt, "batchKind")
					n := rapid.IntRange(2, 5).Draw(rt, "batchN")
					for len(op.Keys) < n {
						op.Keys = append(op.Keys, rapid.SampledFrom([]string{"k1", "k2", "k3", "k4"}).Draw(rt, "bk"))
						op.TTLMs = append(op.TTLMs, op.TTLMs[0])
					}
				}
			}
		}
		saveCase("c11", plan)
		run := cacheRun(t, plan)
		if run.Res.Frozen {
			c.Inconclusive("virtual-clock-freeze")
			return
		}
		cBasic(c, rt, "C11", plan, run)
		cValues(c, rt, "C11", plan, run)
		nt := false
		// structure of helper results
		type opKey struct{ c, o int }
		got := map[opKey][]*cRead{}
		for _, r := range run.Reads {
			got[opKey{r.Caller, r.Op}] = append(got[opKey{r.Caller, r.Op}], r)
		}
		for ci, ops := range plan.Callers {
			for oi, op := range ops {
				rs := got[opKey{ci, oi}]
				if len(rs) == 0 {
					continue
				}
				failed := false
				hit, miss := false, false
				for _, r := range rs {
					if r.Err != nil {
						failed = true
					}
					if r.Pos >= 0 && r.Hit {
						hit = true
					} else if r.Pos >= 0 {
						miss = true
					}
				}
				dup := len(distinct(op.Keys)) < len(op.Keys)
				if (dup || (hit && miss)) && op.Kind != "get" {
					nt = true
				}
				if failed {
					continue
				}
				where := fmt.Sprintf("caller %d op %d (%s %v)", ci, oi, op.Kind, op.Keys)
				switch op.Kind {
				case "multi":
					n := 0
					for _, r := range rs {
						if r.Pos >= 0 {
							n++
						}
					}
					if n != len(op.Keys) {
						c.Fail(rt, "C11.one-result-per-command", fmt.Sprintf("%s returned %d results", where, n), plan)
					}
				case "mgetcache":
					for _, r := range rs {
						if r.Pos == -1 {
							want := strings.Join(distinct(op.Keys), ",")
							if r.Key != want {
								c.Fail(rt, "C11.map-keys", fmt.Sprintf("%s returned a map with keys [%s], want [%s]", where, r.Key, want), plan)
							}
						}
					}
				case "docache-mget":
					for _, r := range rs {
						if r.Pos == -2 {
							c.Fail(rt, "C11.one-result-per-command", fmt.Sprintf("%s: %s", where, r.Key), plan)
						}
					}
				}
			}
		}
		c.Eval(nt, cKey(plan), "store="+plan.Store)
		c.Sample(nt, func() any { return plan })
	})
}

func distinct(ks []string) []string {
	seen := map[string]bool{}
	var out []string
	for _, k := range ks {
		if !seen[k] {
			seen[k] = true
			out = append(out, k)
		}
	}
	sort.Strings(out)
	return out
}

// ---------------------------------------------------------------------------------- C09

// cFetches lists, per key, the executions of a fetch of that key on a connection (GET inside
// the cache wrappers or a tagged static-TTL GET / MGET), in server order.
type cFetch struct {
	Conn       int
	RecvUs, At int64
	Key        string
}

func cFetches(run cRun) map[string][]cFetch {
	out := map[string][]cFetch{}
	for _, e := range run.Events {
		if e.Kind != "recv" || len(e.Argv) < 2 || e.Conn < 0 {
			continue
		}
		switch e.Argv[0] {
		case "GET":
			out[e.Argv[1]] = append(out[e.Argv[1]], cFetch{Conn: e.Conn, RecvUs: e.At, At: e.At, Key: e.Argv[1]})
		case "MGET":
			for _, k := range e.Argv[1:] {
				out[k] = append(out[k], cFetch{Conn: e.Conn, RecvUs: e.At, At: e.At, Key: k})
			}
		}
	}
	return out
}

func TestVerif_C09_SingleFlight(t *testing.T) {
	c := stat.For("C09", "single-"+queueLabel()).Rule("same histories without caller cancellation, biased to several callers reading the same keys while the first fetch is held by server latency; oracle from the server log: after a fetch of key k on the connection, the next fetch of k on that connection must be justified by something in between: an invalidating write/delete/flush/expiry of k, the client TTL of the cached entry running out, or a connection loss; every concurrent reader gets a value of that key that was current during its call; non-trivial = two callers' reads of one key overlap in time while a fetch of it is delayed")
	defer c.Flush()
	rapid.Check(t, func(rt *rapid.T) {
		plan := genCachePlanForms(rt, true)
		// many readers of few keys
		for ci := range plan.Callers {
			for oi := range plan.Callers[ci] {
				op := &plan.Callers[ci][oi]
				op.GapUs = op.GapUs % 1500
				for k := range op.Keys {
					if rapid.Bool().Draw(rt, "hot") {
						op.Keys[k] = "k1"
					}
				}
			}
		}
		if rapid.IntRange(0, 3).Draw(rt, "failedFlightShape") == 0 {
			// directed shape: the connection is lost while a slow batch that names one command twice is in flight, another
			// command on the same key is cached or in flight, and the key is read again later
			plan.FetchLats[0] = 9000
			first := cOp{GapUs: 0, Kind: "multi", Keys: []string{"k1", "k2", "k1"}, TTLMs: []int{60000, 60000, 60000}}
			plan.Callers[0] = append([]cOp{first}, plan.Callers[0]...)
			other := []cOp{{GapUs: rapid.SampledFrom([]int{0, 100, 12000}).Draw(rt, "otherAt"), Kind: "getrange", Keys: []string{"k1"}, TTLMs: []int{60000}},
				{GapUs: rapid.SampledFrom([]int{15000, 30000}).Draw(rt, "laterAt"), Kind: "get", Keys: []string{"k1"}, TTLMs: []int{60000}}}
			plan.Callers = append(plan.Callers, other)
			// what fails: the connection, or only the transaction of that fetch (refused while queued, EXEC aborts)
			if rapid.Bool().Draw(rt, "abortNotKill") {
				plan.Ext = append(plan.Ext, cExt{AtUs: 0, Kind: "abort-fetch", Key: rapid.SampledFrom([]string{"k1", "k2"}).Draw(rt, "abortKey")})
			} else {
				plan.Ext = append(plan.Ext, cExt{AtUs: rapid.SampledFrom([]int{1000, 4000, 8999}).Draw(rt, "killAt"), Kind: "kill-conns"})
			}
		}
		saveCase("c09", plan)
		run := cacheRun(t, plan)
		if run.Res.Frozen {
			c.Inconclusive("virtual-clock-freeze")
			return
		}
		cBasic(c, rt, "C09", plan, run)
		cValues(c, rt, "C09", plan, run)
		cErrorsHaveCause(c, rt, "C09", plan, run)
		minTTL := map[string]int{}
		for _, ops := range plan.Callers {
			for _, op := range ops {
				for i, k := range op.Keys {
					ttl := op.TTLMs[0]
					if i < len(op.TTLMs) {
						ttl = op.TTLMs[i]
					}
					if v, ok := minTTL[k]; !ok || ttl < v {
						minTTL[k] = ttl
					}
				}
			}
		}
		for key, fs := range cFetches(run) {
			for i := 1; i < len(fs); i++ {
				a, b := fs[i-1], fs[i]
				if a.Conn != b.Conn {
					continue
				}
				justified := ""
				for _, ab := range run.Aborts {
					if ab.Key == key && ab.AtUs >= a.At-1 && ab.AtUs <= b.RecvUs+1 {
						justified = "aborted" // the first fetch was refused: nothing was cached
					}
				}
				for _, w := range run.Writes {
					if w.AtUs >= a.At-1 && w.AtUs <= b.RecvUs+1 && (w.Key == key || w.Kind == "flushall" || w.Kind == "kill-conns") {
						justified = w.Kind
					}
				}
				// the cached entry had run out by the time the second fetch reached the server: use the expiry the
				// client itself reported to the callers that got the first fetch's reply (the client TTL is measured
				// from the start of the request, which may have queued behind slow batches for a long time)
				for _, r := range run.Reads {
					if r.Pos >= 0 && r.Key == key && r.Err == nil && r.PXAT > 0 && r.EndUs >= a.At-1 && r.EndUs <= b.RecvUs && (r.PXAT-run.EpochMs)*1000 <= b.RecvUs {
						justified = "client-ttl"
					}
				}
				if b.RecvUs-a.At >= int64(minTTL[key])*1000 {
					justified = "client-ttl"
				}
				// the client TTL runs from the start of the call that opened the flight, which may have queued for a long
				// time before the request reached the server (and may itself have failed for another key of its batch)
				for _, r := range run.Reads {
					if r.Pos >= 0 && r.StartUs <= a.At && r.EndUs >= a.At && slices.Contains(plan.Callers[r.Caller][r.Op].Keys, key) && b.RecvUs-r.StartUs >= int64(minTTL[key])*1000 {
						justified = "client-ttl"
					}
				}
				if justified == "" {
					c.Fail(rt, "C09.one-request-per-flight", fmt.Sprintf("key %s was fetched at +%dus and again at +%dus on connection %d with nothing in between that invalidates or expires the cached reply (min client TTL %d ms); writes: %v", key, a.At, b.RecvUs, a.Conn, minTTL[key], cWritesOf(run.Writes, key)), plan)
				}
			}
		}
		// non-triviality: overlapping reads of one key by different callers with a delayed fetch
		nt := false
		for i, a := range run.Reads {
			for _, b := range run.Reads[i+1:] {
				if a.Pos >= 0 && b.Pos >= 0 && a.Key == b.Key && a.Caller != b.Caller && a.StartUs < b.EndUs && b.StartUs < a.EndUs && (a.EndUs-a.StartUs > 100 || b.EndUs-b.StartUs > 100) {
					nt = true
				}
			}
		}
		c.Eval(nt, cKey(plan), "store="+plan.Store, "tracking="+plan.Tracking)
		c.Sample(nt, func() any { return plan })
	})
}

// ---------------------------------------------------------------------------------- C07 (end to end)

func TestVerif_C07_ExpiryEndToEnd(t *testing.T) {
	c := stat.For("C07", "end-to-end-"+queueLabel()).Rule("single-caller histories (every read owns its fetch) of DoCache / DoMultiCache / MGetCache / DoCache(MGET) with client TTL 5 ms-60 s against keys whose server PTTL is none, missing or 2-200 ms, static TTL on/off, repeated reads across the expiry; virtual time gives the exact request start and reply arrival; oracle: a fetched reply reports CachePXAT == min(start + client TTL, arrival + server PTTL) +-1 ms (static TTL: start + client TTL), a hit reports the CachePXAT of the fetch that populated it and is only returned strictly before that instant; non-trivial = the server PTTL is shorter than the client TTL, or a read within 2 ms of the expiry")
	defer c.Flush()
	rapid.Check(t, func(rt *rapid.T) {
		plan := genCachePlan(rt)
		plan.Callers = plan.Callers[:1]
		for oi := range plan.Callers[0] {
			plan.Callers[0][oi].CancelUs = 0
			plan.Callers[0][oi].GapUs = rapid.SampledFrom([]int{0, 500, 3000, 9000, 25000}).Draw(rt, "gap07")
		}
		var ext []cExt
		for _, e := range plan.Ext {
			if e.Kind == "set" || e.Kind == "del" {
				ext = append(ext, e)
			}
		}
		plan.Ext = ext
		saveCase("c07", plan)
		run := cacheRun(t, plan)
		if run.Res.Frozen {
			c.Inconclusive("virtual-clock-freeze")
			return
		}
		cBasic(c, rt, "C07", plan, run)
		// server expiry of each key version (absolute virtual us), from the write log
		srvExpire := map[string]int64{}
		for _, w := range run.Writes {
			if w.Kind == "expire" {
				srvExpire[fmt.Sprintf("%s@%d", w.Key, -w.Ver)] = w.AtUs
			}
		}
		nt := false
		fetches := cFetches(run)
		fetched := map[string]map[int64]bool{}    // key -> PXATs reported by fetches
		fetchedAt := map[string]map[int64]int64{}
		fetchedFrom := map[string]map[int64]int64{} // key -> PXAT -> virtual time of the call that reported it
		for _, r := range run.Reads {
			if r.Pos < 0 || r.Err != nil {
				continue
			}
			op := plan.Callers[r.Caller][r.Op]
			where := fmt.Sprintf("op %d (%s) position %d key %s", r.Op, op.Kind, r.Pos, r.Key)
			startMs := run.EpochMs + r.StartUs/1000
			endMs := run.EpochMs + r.EndUs/1000
			clientExp := startMs + int64(r.TTLMs)
			if r.Hit {
				// (only entries that an earlier call populated: a reply fetched inside this very call is also reported as served
				// from the cache - duplicates of a batch, the elements of a fetched MGET - and with a server PTTL of 0 it expires
				// in the millisecond it arrives)
				// (... and a fetch inside this call can report the very expiry an earlier call reported: PTTL 0 twice within one
				// millisecond; a hit is stale only if the server saw no fetch of the key during this call)
				refetched := false
				for _, f := range fetches[r.Key] {
					if f.RecvUs >= r.StartUs && f.RecvUs <= r.EndUs {
						refetched = true
					}
				}
				if r.PXAT <= startMs && fetched[r.Key][r.PXAT] && fetchedFrom[r.Key][r.PXAT] < r.StartUs && !refetched {
					c.Fail(rt, "C07.no-hit-after-expiry", fmt.Sprintf("%s was served as a hit at +%dms although its entry expires at +%dms", where, startMs-run.EpochMs, r.PXAT-run.EpochMs), plan)
				}
				if r.PXAT-startMs <= 2 {
					nt = true
				}
				live := false // an entry of this key populated by an earlier call is still valid and was not invalidated since
				tie := false  // a write of this key shares its instant with the population or with this read: it may or may not have hit the entry
				for px, at := range fetchedAt[r.Key] {
					if px > startMs {
						invalidated := false
						for _, w := range run.Writes {
							// the entry was populated at some instant of the populating call, not necessarily at its end (a batch
							// returns when its slowest transaction has been answered): a write during that call, or at the very
							// instant of this read, may or may not have removed the entry
							if (w.Key == r.Key || w.Kind == "flushall") && (w.AtUs >= fetchedFrom[r.Key][px] && w.AtUs <= at || w.AtUs == r.StartUs) {
								tie = true
							}
							if (w.Key == r.Key || w.Kind == "flushall") && w.AtUs > at && w.AtUs < r.StartUs {
								if w.Kind == "expire" {
									// only an expiry of the version that is still current removes the key
									before := cTruth(run.Writes, r.Key, w.AtUs, w.AtUs-1)
									if !before[fmt.Sprintf("%s@%d", w.Key, -w.Ver)] {
										continue
									}
								}
								invalidated = true
							}
						}
						if !invalidated {
							live = true
						}
					}
				}
				if live {
					if !fetched[r.Key][r.PXAT] && !tie {
						c.Fail(rt, "C07.hit-reports-entry-expiry", fmt.Sprintf("%s: the hit reports expiry +%dms, but the entries of that key populated so far expire at %v", where, r.PXAT-run.EpochMs, fetched[r.Key]), plan)
					}
					// (with a tie and an unknown expiry nothing can be asserted: the tied write may have removed the entry and this
					// call populated it again; remember the expiry it reports as a population of this call)
					if !fetched[r.Key][r.PXAT] {
						if fetched[r.Key] == nil {
							fetched[r.Key], fetchedAt[r.Key], fetchedFrom[r.Key] = map[int64]bool{}, map[int64]int64{}, map[int64]int64{}
						}
						fetched[r.Key][r.PXAT], fetchedAt[r.Key][r.PXAT], fetchedFrom[r.Key][r.PXAT] = true, r.EndUs, r.StartUs
					}
					continue
				}
				// otherwise the entry was populated inside this very call (a duplicate key of the batch waits on
				// the flight of its first occurrence and is reported as served from the cache): same rule as a fetch
			}
			// a fetch: expected expiry
			want := clientExp
			se, hasSrv := srvExpire[r.Val]
			static := op.staticAt(r.Pos)
			if hasSrv && !static && !r.Nil {
				srvMs := run.EpochMs + se/1000
				if srvMs < want {
					want = srvMs
					nt = true
				}
			}
			// a key that occurs several times in one batch shares one flight: any of its TTLs may have opened it
			okExp := r.PXAT >= want-1 && r.PXAT <= want+1
			for j, k := range op.Keys {
				if k != r.Key || j >= len(op.TTLMs) {
					continue
				}
				alt := startMs + int64(op.TTLMs[j])
				if hasSrv && !static && !r.Nil {
					alt = min(alt, run.EpochMs+se/1000)
				}
				if r.PXAT >= alt-1 && r.PXAT <= alt+1 {
					okExp = true
				}
			}
			if !okExp {
				c.Fail(rt, "C07.expiry-is-min-of-client-and-server", fmt.Sprintf("%s fetched %q during [+%dms,+%dms] with client TTL %d ms (static=%v) and server expiry %v: CachePXAT is +%dms, want +%dms", where, r.rendered(), startMs-run.EpochMs, endMs-run.EpochMs, r.TTLMs, static, srvOf(hasSrv, se), r.PXAT-run.EpochMs, want-run.EpochMs), plan)
			}
			if fetched[r.Key] == nil {
				fetched[r.Key] = map[int64]bool{}
			}
			fetched[r.Key][r.PXAT] = true
			if fetchedAt[r.Key] == nil {
				fetchedAt[r.Key] = map[int64]int64{}
			}
			fetchedAt[r.Key][r.PXAT] = r.EndUs // the reply arrived now; it reflects every write executed before
			if fetchedFrom[r.Key] == nil {
				fetchedFrom[r.Key] = map[int64]int64{}
			}
			fetchedFrom[r.Key][r.PXAT] = r.StartUs
		}
		c.Eval(nt, cKey(plan), "store="+plan.Store)
		c.Sample(nt, func() any { return plan })
	})
}

func srvOf(has bool, us int64) string {
	if !has {
		return "none"
	}
	return fmt.Sprintf("+%dms", us/1000)
}
