package props

import (
	"context"
	"encoding/json"
	"errors"
	"fmt"
	"math"
	"os"
	"path"
	"sort"
	"strconv"
	"strings"
	"sync"
	"testing"
	"time"

	"github.com/redis/rueidis"
	"pgregory.net/rapid"
	"verif/harness/sim"
	"verifkit/bubble"
	"verifkit/fakeredis"
	"verifkit/resp"
	"verifkit/rgen"
	"verifkit/stat"
)

// C26 "Pub/Sub delivers exactly the subscribed messages in order".
//
// Timed plan in a synctest bubble against the fake server: 1-4 Receive calls (SUBSCRIBE of 1-2 channels,
// PSUBSCRIBE of one pattern, SSUBSCRIBE of one shard channel; small alphabet so that they overlap) started at
// generated instants; contexts that end at generated instants; UNSUBSCRIBE / PUNSUBSCRIBE / SUNSUBSCRIBE commands
// (with and without channels) issued through Client.Do by other callers; publishes by "another client"; tagged
// regular commands on the same client; optionally a dedicated client with PubSubHooks; finally the connections are
// killed or the client is closed.
//
// Model (see pubsub.go / pipe.Receive): a Receive registers a client-side subscriber for its channels when it is
// called (before SUBSCRIBE is written) and from then on receives every message push the connection gets for one of
// its channels; an unsubscribe push naming one of its channels ends it (all Receives of that channel, with every
// channel they have); a context that ends or a lost connection ends it as well; the server subscription is NOT
// dropped when a context ends. Messages that arrive before the call's own SUBSCRIBE has been answered are buffered
// and only handed to the callback once it has (they are lost if the call ends first), so completeness is required
// from the SUBSCRIBE answer on. Everything at exactly the same virtual microsecond is a race and is not ordered by
// the oracle.

type c26Recv struct {
	Kind    string   `json:"kind"`  // sub psub ssub
	Chans   []string `json:"chans"` // channels (sub, ssub) or one pattern (psub)
	StartUs int      `json:"start_us"`
	Ctx     string   `json:"ctx"`              // none cancel deadline
	CtxUs   int      `json:"ctx_us,omitempty"` // absolute virtual instant at which the context ends
}

type c26Unsub struct {
	AtUs  int      `json:"at_us"`
	Kind  string   `json:"kind"`            // sub psub ssub
	Chans []string `json:"chans,omitempty"` // none: wildcard
}

type c26Pub struct {
	AtUs  int    `json:"at_us"`
	Shard bool   `json:"shard,omitempty"`
	Chan  string `json:"chan"`
	Msg   string `json:"msg"`
}

type c26Cmd struct {
	AtUs  int        `json:"at_us"`
	UID   string     `json:"uid"`
	Reply resp.Value `json:"reply"`
	LatUs int        `json:"lat_us"`
}

type c26HookSub struct {
	AtUs  int      `json:"at_us"`
	Kind  string   `json:"kind"`
	Chans []string `json:"chans"`
}

type c26Hook struct {
	Subs    []c26HookSub `json:"subs"`
	ResetUs int          `json:"reset_us,omitempty"` // >0: SetPubSubHooks is called a second time at this instant
	End     string       `json:"end"`                // release dclose final
	EndUs   int          `json:"end_us,omitempty"`
}

type c26Plan struct {
	RESP2   bool       `json:"resp2"`
	Retry   bool       `json:"retry"`
	Recvs   []c26Recv  `json:"recvs"`
	Unsubs  []c26Unsub `json:"unsubs,omitempty"`
	Pubs    []c26Pub   `json:"pubs,omitempty"`
	Cmds    []c26Cmd   `json:"cmds,omitempty"`
	Hook    *c26Hook   `json:"hook,omitempty"`
	Final   string     `json:"final"` // close kill
	FinalUs int        `json:"final_us"`
}

type c26Msg struct{ Pattern, Channel, Message string }

type c26RecvObs struct {
	StartUs, EndUs int64
	Err            error
	Msgs           []c26Msg
	Done           bool
}

type c26CmdObs struct {
	StartUs, EndUs int64
	Res            rueidis.RedisResult
	Done           bool
}

type c26ChanObs struct {
	Nil    bool
	Vals   []string
	Closed bool
}

type c26Obs struct {
	Recvs    []*c26RecvObs
	Cmds     []*c26CmdObs
	HookConn int
	HookCh   []*c26ChanObs
	HookMsgs []c26Msg
	FinalAt  int64
	CloseOK  bool
	Pending  int
	Events   []fakeredis.Event
}

func c26Subscribe(client rueidis.Client, kind string, chans []string) rueidis.Completed {
	switch kind {
	case "psub":
		return client.B().Psubscribe().Pattern(chans...).Build()
	case "ssub":
		return client.B().Ssubscribe().Channel(chans...).Build()
	}
	return client.B().Subscribe().Channel(chans...).Build()
}

func c26Unsubscribe(client rueidis.Client, kind string, chans []string) rueidis.Completed {
	switch kind {
	case "psub":
		if len(chans) == 0 {
			return client.B().Punsubscribe().Build()
		}
		return client.B().Punsubscribe().Pattern(chans...).Build()
	case "ssub":
		if len(chans) == 0 {
			return client.B().Sunsubscribe().Build()
		}
		return client.B().Sunsubscribe().Channel(chans...).Build()
	}
	if len(chans) == 0 {
		return client.B().Unsubscribe().Build()
	}
	return client.B().Unsubscribe().Channel(chans...).Build()
}

func c26Run(t *testing.T, plan c26Plan) (res bubble.Result, o *c26Obs) {
	o = &c26Obs{HookConn: -1, FinalAt: -1}
	for range plan.Recvs {
		o.Recvs = append(o.Recvs, &c26RecvObs{})
	}
	for range plan.Cmds {
		o.Cmds = append(o.Cmds, &c26CmdObs{})
	}
	var mu sync.Mutex
	res = bubble.Run(t, func() {
		w := fakeredis.NewWorld()
		srv := w.NewServer("127.0.0.1:6379")
		ring := queueLabel() == "ring"
		srv.Hooks.Latency = c01Latency(ring, nil)
		opt := sim.Option(w, "127.0.0.1:6379")
		opt.ForceSingleClient = true
		opt.PipelineMultiplex = -1
		opt.DisableRetry = !plan.Retry
		if ring {
			opt.WriteBufferEachConn = 1 << 20
		}
		if plan.RESP2 {
			opt.AlwaysRESP2 = true
			opt.DisableCache = true
		}
		client, err := rueidis.NewClient(opt)
		if err != nil {
			panic(fmt.Sprintf("harness: NewClient failed: %v", err))
		}
		sleepUntil := func(us int) {
			if d := int64(us) - w.Since(); d > 0 {
				time.Sleep(time.Duration(d) * time.Microsecond)
			}
		}
		var wg sync.WaitGroup
		spawn := func(f func()) {
			wg.Add(1)
			go func() { defer wg.Done(); f() }()
		}
		stop := make(chan struct{})
		var watchers []chan struct{} // one per hook-channel reader (no WaitGroup: fewer bubble-associated objects)
		closed := false

		// dedicated client with hooks (acquired first so that its server connection is known)
		release := func() {}
		if h := plan.Hook; h != nil {
			before := len(srv.Conns())
			d, rel := client.Dedicate()
			release = rel
			if cs := srv.Conns(); len(cs) == before+1 {
				o.HookConn = cs[before].ID
			}
			hooks := func() rueidis.PubSubHooks {
				return rueidis.PubSubHooks{OnMessage: func(m rueidis.PubSubMessage) {
					mu.Lock()
					o.HookMsgs = append(o.HookMsgs, c26Msg{m.Pattern, m.Channel, m.Message})
					mu.Unlock()
				}}
			}
			watch := func(ch <-chan error) {
				co := &c26ChanObs{}
				mu.Lock()
				o.HookCh = append(o.HookCh, co)
				mu.Unlock()
				if ch == nil {
					co.Nil = true
					return
				}
				done := make(chan struct{})
				mu.Lock()
				watchers = append(watchers, done)
				mu.Unlock()
				go func() {
					defer close(done)
					for {
						select {
						case v, ok := <-ch:
							mu.Lock()
							if !ok {
								co.Closed = true
								mu.Unlock()
								return
							}
							co.Vals = append(co.Vals, fmt.Sprint(v))
							mu.Unlock()
						case <-stop:
							return
						}
					}
				}()
			}
			watch(d.SetPubSubHooks(hooks()))
			for _, s := range h.Subs {
				s := s
				spawn(func() {
					sleepUntil(s.AtUs)
					d.Do(context.Background(), c26Subscribe(client, s.Kind, s.Chans))
				})
			}
			if h.ResetUs > 0 {
				spawn(func() {
					sleepUntil(h.ResetUs)
					watch(d.SetPubSubHooks(hooks()))
				})
			}
			switch h.End {
			case "release":
				spawn(func() { sleepUntil(h.EndUs); rel() })
			case "dclose":
				spawn(func() { sleepUntil(h.EndUs); d.Close() })
			}
		}

		for i, r := range plan.Recvs {
			ob, r := o.Recvs[i], r
			spawn(func() {
				sleepUntil(r.StartUs)
				ctx := context.Background()
				cancel := context.CancelFunc(func() {})
				switch r.Ctx {
				case "cancel":
					ctx, cancel = context.WithCancel(ctx)
					tm := time.AfterFunc(time.Duration(int64(r.CtxUs)-w.Since())*time.Microsecond, cancel)
					defer tm.Stop()
				case "deadline":
					ctx, cancel = context.WithTimeout(ctx, time.Duration(int64(r.CtxUs)-w.Since())*time.Microsecond)
				}
				mu.Lock()
				ob.StartUs = w.Since()
				mu.Unlock()
				err := client.Receive(ctx, c26Subscribe(client, r.Kind, r.Chans), func(m rueidis.PubSubMessage) {
					mu.Lock()
					ob.Msgs = append(ob.Msgs, c26Msg{m.Pattern, m.Channel, m.Message})
					mu.Unlock()
				})
				mu.Lock()
				ob.EndUs, ob.Err, ob.Done = w.Since(), err, true
				mu.Unlock()
				cancel()
			})
		}
		for _, u := range plan.Unsubs {
			u := u
			spawn(func() {
				sleepUntil(u.AtUs)
				client.Do(context.Background(), c26Unsubscribe(client, u.Kind, u.Chans))
			})
		}
		for _, p := range plan.Pubs {
			p := p
			spawn(func() {
				sleepUntil(p.AtUs)
				if p.Shard {
					srv.SPublish(p.Chan, p.Msg)
				} else {
					srv.Publish(p.Chan, p.Msg)
				}
			})
		}
		for i, cm := range plan.Cmds {
			ob, cm := o.Cmds[i], cm
			spawn(func() {
				sleepUntil(cm.AtUs)
				raw := resp.Append(nil, cm.Reply)
				if plan.RESP2 {
					raw = resp.AppendV2(nil, cm.Reply)
				}
				cmd := client.B().Arbitrary("VREPLY").Args(cm.UID, string(raw), strconv.Itoa(cm.LatUs)).Build()
				mu.Lock()
				ob.StartUs = w.Since()
				mu.Unlock()
				r := client.Do(context.Background(), cmd)
				mu.Lock()
				ob.EndUs, ob.Res, ob.Done = w.Since(), r, true
				mu.Unlock()
			})
		}
		spawn(func() {
			sleepUntil(plan.FinalUs)
			mu.Lock()
			o.FinalAt = w.Since()
			mu.Unlock()
			if plan.Final == "kill" {
				for _, c := range srv.LiveConns() {
					c.Kill()
				}
				return
			}
			ok := sim.CallTimeout(time.Minute, client.Close)
			mu.Lock()
			o.CloseOK, closed = ok, true
			mu.Unlock()
		})
		finished := sim.WaitTimeout(&wg, 2*time.Minute)
		if !finished {
			mu.Lock()
			for _, r := range o.Recvs {
				if !r.Done {
					o.Pending++
				}
			}
			for _, r := range o.Cmds {
				if !r.Done {
					o.Pending++
				}
			}
			if o.Pending == 0 {
				o.Pending = 1 // an UNSUBSCRIBE / hook action / Close is stuck
			}
			mu.Unlock()
		}
		mu.Lock()
		cl := closed
		mu.Unlock()
		if cl {
			sim.CallTimeout(time.Minute, release)
		} else {
			sim.CallTimeout(time.Minute, release)
			ok := sim.CallTimeout(time.Minute, client.Close)
			mu.Lock()
			o.CloseOK = ok
			mu.Unlock()
		}
		time.Sleep(2 * time.Second)
		close(stop)
		mu.Lock()
		ws := watchers
		mu.Unlock()
		for _, done := range ws {
			<-done
		}
		w.Stop()
		o.Events = w.Snapshot()
		time.Sleep(5 * time.Second)
		if !finished {
			sim.WaitTimeout(&wg, time.Minute)
		}
	})
	return
}

// ---- oracle

type c26Ev struct {
	Seq, At int64
	Kind    string // message pmessage smessage unsubscribe punsubscribe sunsubscribe
	Key     string // channel / pattern ("" with Null for the null unsubscribe)
	Null    bool
	Msg     c26Msg
}

func c26ConnEvents(events []fakeredis.Event, conn int) (evs []c26Ev, closeAt int64) {
	closeAt = -1
	for _, e := range events {
		if e.Conn != conn {
			continue
		}
		if e.Kind == "close" && closeAt < 0 {
			closeAt = e.At
		}
		if (e.Kind != "push" && e.Kind != "reply") || e.Reply == nil || e.Reply.T != '>' || len(e.Reply.A) < 3 {
			continue
		}
		a := e.Reply.A
		ev := c26Ev{Seq: e.Seq, At: e.At, Kind: a[0].S}
		switch ev.Kind {
		case "message", "smessage":
			ev.Key = a[1].S
			ev.Msg = c26Msg{"", a[1].S, a[2].S}
		case "pmessage":
			if len(a) < 4 {
				continue
			}
			ev.Key = a[1].S
			ev.Msg = c26Msg{a[1].S, a[2].S, a[3].S}
		case "unsubscribe", "punsubscribe", "sunsubscribe":
			ev.Key = a[1].S
			ev.Null = a[1].T == '_'
		default:
			continue
		}
		evs = append(evs, ev)
	}
	return
}

var c26MsgKind = map[string]string{"sub": "message", "psub": "pmessage", "ssub": "smessage"}
var c26UnsubKind = map[string]string{"sub": "unsubscribe", "psub": "punsubscribe", "ssub": "sunsubscribe"}

func c26In(s string, set []string) bool {
	for _, x := range set {
		if x == s {
			return true
		}
	}
	return false
}

func c26ErrClass(err error) string {
	switch {
	case err == nil:
		return "nil"
	case isCtxErr(err):
		return "ctx"
	case errors.Is(err, rueidis.ErrClosing):
		return "closing"
	}
	return "other"
}

type c26Cand struct {
	Lo, Hi int64
	Out    string // nil ctx closing anyerr
	Why    string
}

// c26Subseq reports whether got is a subsequence of want (each element of want used at most once, in order).
func c26Subseq(got, want []c26Msg) bool {
	j := 0
	for _, g := range got {
		for j < len(want) && want[j] != g {
			j++
		}
		if j == len(want) {
			return false
		}
		j++
	}
	return true
}

// c26SubscribeReplies finds, for every Receive, the server's (last) reply to its SUBSCRIBE command on connection x.
// Receives with an identical command line cannot be told apart on the wire: they are matched in call order with the
// frames in arrival order (one pipeline: FIFO), and among calls started at the same instant the latest frame is
// taken (later answer = fewer messages required = sound).
func c26SubscribeReplies(plan c26Plan, o *c26Obs, x int) []c26Ev {
	out := make([]c26Ev, len(plan.Recvs))
	line := func(kind string, chans []string) string {
		return map[string]string{"sub": "SUBSCRIBE", "psub": "PSUBSCRIBE", "ssub": "SSUBSCRIBE"}[kind] + " " + strings.Join(chans, " ")
	}
	reqs := map[string][]int{} // command line -> request indexes on x in arrival order
	last := map[int]c26Ev{}    // request index -> last reply
	for _, e := range o.Events {
		if e.Conn != x || len(e.Argv) == 0 {
			continue
		}
		switch e.Kind {
		case "recv":
			reqs[strings.Join(e.Argv, " ")] = append(reqs[strings.Join(e.Argv, " ")], e.Req)
		case "reply":
			last[e.Req] = c26Ev{Seq: e.Seq, At: e.At}
		}
	}
	for i, r := range plan.Recvs {
		if !o.Recvs[i].Done {
			continue
		}
		rank := -1
		for j, q := range plan.Recvs {
			if line(q.Kind, q.Chans) == line(r.Kind, r.Chans) && o.Recvs[j].Done && o.Recvs[j].StartUs <= o.Recvs[i].StartUs {
				rank++
			}
		}
		if l := reqs[line(r.Kind, r.Chans)]; rank >= 0 && rank < len(l) {
			out[i] = last[l[rank]]
		}
	}
	return out
}

func c26Check(c *stat.Collector, rt stat.Fataler, plan c26Plan, res bubble.Result, o *c26Obs) (nt bool, classes []string) {
	cl := map[string]bool{}
	if o.Pending > 0 || res.Deadlock {
		c.Fail(rt, "C26.no-hang", fmt.Sprintf("%d calls never returned (%s)", o.Pending, res), plan)
	}
	if res.Panic != nil {
		c.Fail(rt, "C26.no-panic", res.String(), plan)
	}
	if res.Leak {
		c.Fail(rt, "C26.no-hang", res.String(), plan)
	}
	if !o.CloseOK {
		c.Fail(rt, "C26.close-returns", "Client.Close did not return within a virtual minute", plan)
	}
	x := 0
	if plan.RESP2 {
		x = 1 // the lazily dialled RESP2 Pub/Sub connection: the second connection of the scenario
	}
	evs, closeAt := c26ConnEvents(o.Events, x)
	pubOf := map[string]c26Pub{}
	for _, p := range plan.Pubs {
		pubOf[p.Msg] = p
	}
	inf := int64(math.MaxInt64)
	nearPublish, tie := false, false
	tsubs := c26SubscribeReplies(plan, o, x)
	for i, r := range plan.Recvs {
		ob := o.Recvs[i]
		tsub := tsubs[i]
		where := fmt.Sprintf("Receive #%d (%s %v, started +%dus)", i, r.Kind, r.Chans, ob.StartUs)
		if !ob.Done {
			continue
		}
		// what can end this Receive
		var cands []c26Cand
		if r.Ctx != "none" {
			cands = append(cands, c26Cand{int64(r.CtxUs), int64(r.CtxUs), "ctx", "its context ended"})
		}
		for _, e := range evs {
			if e.Kind == c26UnsubKind[r.Kind] && !e.Null && c26In(e.Key, r.Chans) {
				if e.At > ob.StartUs {
					// the subscriber is dropped when the push is handled, but the call cannot return before its own
					// SUBSCRIBE has been answered
					hi := inf
					if tsub.Seq > 0 {
						hi = max(e.At, tsub.At)
					}
					cands = append(cands, c26Cand{e.At, hi, "nil", fmt.Sprintf("%s %s pushed at +%dus", e.Kind, e.Key, e.At)})
					break
				} else if e.At == ob.StartUs {
					// same instant as the call: the push may have been handled before the Receive registered
					cands = append(cands, c26Cand{e.At, inf, "nil", fmt.Sprintf("%s %s pushed at the start instant", e.Kind, e.Key)})
				}
			}
		}
		if o.FinalAt >= 0 {
			if plan.Final == "kill" {
				cands = append(cands, c26Cand{o.FinalAt, o.FinalAt, "anyerr", "connection killed"})
			} else {
				hi := inf
				if closeAt >= o.FinalAt {
					hi = closeAt
				}
				cands = append(cands, c26Cand{o.FinalAt, hi, "closing", "Client.Close"})
			}
		}
		minHi, minLo := inf, inf
		for _, cd := range cands {
			if cd.Hi < minHi {
				minHi = cd.Hi
			}
			if cd.Lo < minLo {
				minLo = cd.Lo
			}
		}
		got := c26ErrClass(ob.Err)
		ok := false
		var allowed []string
		nAllowed := 0
		for _, cd := range cands {
			if cd.Lo <= minHi {
				nAllowed++
				allowed = append(allowed, cd.Out+" ("+cd.Why+")")
				if cd.Out == got || (cd.Out == "anyerr" && got != "nil") {
					ok = true
				}
			}
		}
		if nAllowed > 1 {
			tie = true
		}
		if !ok {
			c.Fail(rt, "C26.return-value", fmt.Sprintf("%s returned %v at +%dus; expected one of %v", where, ob.Err, ob.EndUs, allowed), plan)
		}
		cl["returned-"+got] = true
		// messages
		var window, must []c26Msg
		for _, e := range evs {
			if e.Kind == c26MsgKind[r.Kind] && c26In(e.Key, r.Chans) {
				if e.At >= ob.StartUs && e.At <= ob.EndUs {
					window = append(window, e.Msg)
				}
				if tsub.Seq > 0 && tsub.At < minLo && e.Seq > tsub.Seq && e.At < minLo {
					must = append(must, e.Msg)
				}
				if minLo != inf && minLo < o.FinalAt && e.At-minLo <= 1000 && minLo-e.At <= 1000 {
					nearPublish = true
				}
			}
		}
		for _, m := range ob.Msgs {
			p, known := pubOf[m.Message]
			good := known && p.Chan == m.Channel
			switch r.Kind {
			case "sub":
				good = good && !p.Shard && m.Pattern == "" && c26In(m.Channel, r.Chans)
			case "ssub":
				good = good && p.Shard && m.Pattern == "" && c26In(m.Channel, r.Chans)
			case "psub":
				matched, _ := path.Match(m.Pattern, m.Channel)
				good = good && !p.Shard && c26In(m.Pattern, r.Chans) && matched
			}
			if !good {
				c.Fail(rt, "C26.foreign-message", fmt.Sprintf("%s got %+v which was not published to its subscription (publish: %+v)", where, m, p), plan)
			}
		}
		if !c26Subseq(ob.Msgs, window) {
			c.Fail(rt, "C26.in-order-once", fmt.Sprintf("%s got %v; the server pushed for it, during its lifetime and in this order, %v", where, ob.Msgs, window), plan)
		}
		have := map[c26Msg]bool{}
		for _, m := range ob.Msgs {
			have[m] = true
		}
		for _, m := range must {
			if !have[m] {
				c.Fail(rt, "C26.complete", fmt.Sprintf("%s never got %+v although the server pushed it after answering the call's SUBSCRIBE (+%dus) and strictly before anything that ends the call (earliest at +%dus); got %v", where, m, tsub.At, minLo, ob.Msgs), plan)
			}
		}
		if len(ob.Msgs) > 0 {
			cl["msg-delivered"] = true
		}
		if len(r.Chans) > 1 {
			cl["two-channel-subscribe"] = true
		}
	}
	// regular commands
	for i, cm := range plan.Cmds {
		ob := o.Cmds[i]
		if !ob.Done {
			continue
		}
		if err := sim.MatchResult(ob.Res, cm.Reply); err != nil {
			if e := ob.Res.NonRedisError(); e != nil && o.FinalAt >= 0 && ob.EndUs >= o.FinalAt {
				cl["cmd-failed-by-final"] = true
				continue
			}
			c.Fail(rt, "C26.command-reply", fmt.Sprintf("command %s (issued +%dus, returned +%dus): %v", cm.UID, ob.StartUs, ob.EndUs, err), plan)
		}
		cl["cmd-ok"] = true
	}
	// hook channels
	if plan.Hook != nil {
		cl["hooks"] = true
		for i, co := range o.HookCh {
			if co.Nil {
				c.Fail(rt, "C26.hook-channel", fmt.Sprintf("SetPubSubHooks call #%d with non-zero hooks returned a nil channel", i), plan)
			}
			if len(co.Vals) > 1 {
				c.Fail(rt, "C26.hook-channel", fmt.Sprintf("channel of SetPubSubHooks call #%d delivered %d values %v", i, len(co.Vals), co.Vals), plan)
			}
			if !co.Closed {
				c.Fail(rt, "C26.hook-channel", fmt.Sprintf("channel of SetPubSubHooks call #%d was never closed although the dedicated client was released and the client closed (values %v)", i, co.Vals), plan)
			}
			if len(co.Vals) == 1 {
				cl["hook-error-value"] = true
			}
		}
		if len(o.HookCh) > 1 {
			cl["hook-reset"] = true
		}
		if o.HookConn >= 0 {
			hevs, _ := c26ConnEvents(o.Events, o.HookConn)
			var pushed []c26Msg
			for _, e := range hevs {
				if e.Kind == "message" || e.Kind == "pmessage" || e.Kind == "smessage" {
					pushed = append(pushed, e.Msg)
				}
			}
			if !c26Subseq(o.HookMsgs, pushed) {
				c.Fail(rt, "C26.in-order-once", fmt.Sprintf("OnMessage hook got %v; the server pushed on that connection %v", o.HookMsgs, pushed), plan)
			}
			if len(o.HookMsgs) > 0 {
				cl["hook-msg-delivered"] = true
			}
		}
	}
	// non-triviality
	shared, patOverlap := false, false
	for i, a := range plan.Recvs {
		for j := i + 1; j < len(plan.Recvs); j++ {
			b := plan.Recvs[j]
			oa, ob := o.Recvs[i], o.Recvs[j]
			if !oa.Done || !ob.Done || oa.StartUs > ob.EndUs || ob.StartUs > oa.EndUs {
				continue
			}
			if a.Kind == b.Kind {
				for _, ch := range a.Chans {
					if c26In(ch, b.Chans) {
						shared = true
					}
				}
			}
			ps, ns := a, b
			if ps.Kind != "psub" {
				ps, ns = b, a
			}
			if ps.Kind == "psub" && ns.Kind == "sub" {
				for _, ch := range ns.Chans {
					if m, _ := path.Match(ps.Chans[0], ch); m {
						patOverlap = true
					}
				}
			}
		}
	}
	for _, u := range plan.Unsubs {
		if len(u.Chans) == 0 {
			cl["wildcard-unsubscribe"] = true
		}
	}
	cl["shared-channel"] = shared
	cl["pattern-channel-overlap"] = patOverlap
	cl["end-within-1ms-of-publish"] = nearPublish
	cl["same-instant-tie"] = tie
	cl["resp2"] = plan.RESP2
	cl["final-"+plan.Final] = true
	for k, v := range cl {
		if v {
			classes = append(classes, k)
		}
	}
	sort.Strings(classes)
	return shared || patOverlap || nearPublish, classes
}

// ---- generator

func c26Time(rt *rapid.T, label string, lo, hi int) int {
	if hi < lo {
		hi = lo
	}
	if rapid.Bool().Draw(rt, label+"Grid") {
		v := rapid.IntRange(lo/500, hi/500).Draw(rt, label+"G")*500 + rapid.SampledFrom([]int{0, 0, 0, 1, 20}).Draw(rt, label+"J")
		if v < lo {
			v = lo
		}
		if v > hi {
			v = hi
		}
		return v
	}
	return rapid.IntRange(lo, hi).Draw(rt, label)
}

func genC26Plan(rt *rapid.T) c26Plan {
	var p c26Plan
	p.RESP2 = rapid.IntRange(0, 4).Draw(rt, "resp2") == 0
	p.Final = rapid.SampledFrom([]string{"close", "close", "kill"}).Draw(rt, "final")
	p.Retry = p.Final == "close" && rapid.Bool().Draw(rt, "retry") // kill scenarios: DisableRetry, a Receive must not re-subscribe
	p.FinalUs = rapid.IntRange(3000, 8000).Draw(rt, "finalUs")
	chans := []string{"ch1", "ch2", "ch3"}
	pats := []string{"ch*", "ch*", "ch[12]", "ch1", "*2"}
	subset := func(label string) []string {
		a := rapid.SampledFrom(chans).Draw(rt, label)
		if rapid.IntRange(0, 2).Draw(rt, label+"Two") == 0 {
			b := rapid.SampledFrom(chans).Draw(rt, label+"B")
			if b != a {
				return []string{a, b}
			}
		}
		return []string{a}
	}
	nr := rapid.IntRange(1, 4).Draw(rt, "recvs")
	for i := 0; i < nr; i++ {
		r := c26Recv{Kind: rapid.SampledFrom([]string{"sub", "sub", "sub", "psub", "ssub"}).Draw(rt, "kind")}
		switch r.Kind {
		case "sub":
			r.Chans = subset("chans")
		case "psub":
			r.Chans = []string{rapid.SampledFrom(pats).Draw(rt, "pat")}
		case "ssub":
			r.Chans = []string{rapid.SampledFrom(chans[:2]).Draw(rt, "schan")}
		}
		r.StartUs = c26Time(rt, "start", 0, p.FinalUs-1)
		r.Ctx = rapid.SampledFrom([]string{"none", "none", "cancel", "cancel", "deadline"}).Draw(rt, "ctx")
		if r.Ctx != "none" {
			r.CtxUs = c26Time(rt, "ctxAt", r.StartUs+1, 9000)
		}
		p.Recvs = append(p.Recvs, r)
	}
	nu := rapid.IntRange(0, 3).Draw(rt, "unsubs")
	for i := 0; i < nu; i++ {
		r := p.Recvs[rapid.IntRange(0, len(p.Recvs)-1).Draw(rt, "unsubOf")]
		u := c26Unsub{Kind: r.Kind, AtUs: c26Time(rt, "unsubAt", r.StartUs, 9000)}
		switch rapid.IntRange(0, 3).Draw(rt, "unsubWhat") {
		case 0: // wildcard
		case 1:
			u.Chans = r.Chans[:1]
		case 2:
			u.Chans = append([]string(nil), r.Chans...)
		case 3: // something else of the same kind
			if r.Kind == "psub" {
				u.Chans = []string{rapid.SampledFrom(pats).Draw(rt, "unsubPat")}
			} else {
				u.Chans = subset("unsubChans")
			}
		}
		p.Unsubs = append(p.Unsubs, u)
	}
	np := rapid.IntRange(0, 8).Draw(rt, "pubs")
	for i := 0; i < np; i++ {
		p.Pubs = append(p.Pubs, c26Pub{AtUs: c26Time(rt, "pubAt", 0, 9000), Shard: rapid.IntRange(0, 4).Draw(rt, "shard") == 0,
			Chan: rapid.SampledFrom(chans).Draw(rt, "pubChan"), Msg: "m" + strconv.Itoa(i)})
	}
	opts := rgen.Opts{MaxDepth: 2, Attrs: true, Streams: true, Null2: true, Errors: true}
	if p.RESP2 {
		opts = rgen.Opts{MaxDepth: 2, Errors: true, RESP2: true}
	}
	nc := rapid.IntRange(0, 4).Draw(rt, "cmds")
	for i := 0; i < nc; i++ {
		v := rgen.Value(rt, opts)
		if v.T == '>' {
			v = resp.Bulk("x")
		}
		if v.T == '-' || v.T == '!' {
			v.S = "ERR u" + strconv.Itoa(i)
		}
		p.Cmds = append(p.Cmds, c26Cmd{AtUs: c26Time(rt, "cmdAt", 0, 9000), UID: "u" + strconv.Itoa(i), Reply: v,
			LatUs: rapid.SampledFrom([]int{0, 0, 100, 1000, 3000}).Draw(rt, "lat")})
	}
	if !p.RESP2 && rapid.IntRange(0, 2).Draw(rt, "hook") == 0 {
		h := &c26Hook{End: rapid.SampledFrom([]string{"release", "release", "dclose", "final"}).Draw(rt, "hookEnd")}
		limit := p.FinalUs - 1
		if h.End != "final" {
			h.EndUs = c26Time(rt, "hookEndAt", 500, p.FinalUs-1)
			limit = h.EndUs - 1
		}
		ns := rapid.IntRange(1, 2).Draw(rt, "hookSubs")
		for i := 0; i < ns; i++ {
			s := c26HookSub{Kind: rapid.SampledFrom([]string{"sub", "sub", "psub", "ssub"}).Draw(rt, "hookKind"), AtUs: c26Time(rt, "hookSubAt", 0, limit)}
			switch s.Kind {
			case "sub":
				s.Chans = subset("hookChans")
			case "psub":
				s.Chans = []string{rapid.SampledFrom(pats).Draw(rt, "hookPat")}
			case "ssub":
				s.Chans = []string{rapid.SampledFrom(chans[:2]).Draw(rt, "hookSchan")}
			}
			h.Subs = append(h.Subs, s)
		}
		if rapid.IntRange(0, 2).Draw(rt, "hookReset") == 0 {
			h.ResetUs = c26Time(rt, "hookResetAt", 1, limit)
		}
		p.Hook = h
	}
	return p
}

func TestVerif_C26_PubSub(t *testing.T) {
	c := stat.For("C26", "pubsub-"+queueLabel()).Rule("timed plans in a synctest bubble, single client with one pipeline connection (RESP3; 1 in 5 RESP2 with a separate Pub/Sub connection): 1-4 Receive calls (SUBSCRIBE 1-2 channels / PSUBSCRIBE / SSUBSCRIBE over a 3-channel alphabet) started at generated instants with none/cancel/deadline contexts, 0-3 (P|S)UNSUBSCRIBE commands (own channels, a subset, other channels, wildcard) issued through Do by other callers, 0-8 publishes by another client with unique payloads, 0-4 tagged regular commands with generated reply trees and server latency, optionally a dedicated client with PubSubHooks (second SetPubSubHooks, release / Close / left to the end), finally all connections killed (DisableRetry) or Client.Close; oracle from the server's event log: every Receive returns nil / context error / ErrClosing / an error according to the earliest of {its context end, an unsubscribe push naming one of its channels after the call started, kill, Close} (same-microsecond candidates: any of them; a call cannot return nil before its own SUBSCRIBE was answered), its callback sequence is an in-order duplicate-free subsequence of the message pushes the server sent for its subscription on that connection during the call, contains every such push sent after the server answered the call's own SUBSCRIBE and strictly before the earliest ending instant, and nothing published elsewhere; hook channels yield at most one value and are closed by the time the dedicated client is released and the client closed; regular commands return exactly their reply tree; no hang, Close returns; non-trivial = two live Receives share a channel, or a pattern and a channel subscription overlap, or a cancel/unsubscribe lands within 1 virtual ms of a publish for that subscription")
	defer c.Flush()
	rapid.Check(t, func(rt *rapid.T) {
		plan := genC26Plan(rt)
		saveCase("c26", plan)
		res, o := c26Run(t, plan)
		if res.Frozen {
			c.Inconclusive("virtual-clock-freeze")
			return
		}
		nt, classes := c26Check(c, rt, plan, res, o)
		key, _ := json.Marshal(plan)
		c.Eval(nt, string(key), classes...)
		c.Sample(nt, func() any { return plan })
	})
}

// TestDebug_C26_Replay runs the plan stored in $VERIF_C26_REPLAY (JSON of a c26Plan) once and prints what happened.
func TestDebug_C26_Replay(t *testing.T) {
	f := os.Getenv("VERIF_C26_REPLAY")
	if f == "" {
		t.Skip("VERIF_C26_REPLAY not set")
	}
	b, err := os.ReadFile(f)
	if err != nil {
		t.Fatal(err)
	}
	var plan c26Plan
	if err := json.Unmarshal(b, &plan); err != nil {
		t.Fatal(err)
	}
	res, o := c26Run(t, plan)
	t.Logf("bubble: %s", res)
	for _, e := range o.Events {
		if e.Reply != nil && len(e.Reply.String()) > 200 {
			e.Reply = nil
		}
		e.Argv = trunc(e.Argv)
		t.Log(e.String())
	}
	for i, r := range o.Recvs {
		t.Logf("recv %d %+v: %+v", i, plan.Recvs[i], *r)
	}
	t.Logf("final at %d closeOK %v pending %d hookconn %d hookmsgs %v", o.FinalAt, o.CloseOK, o.Pending, o.HookConn, o.HookMsgs)
	for i, h := range o.HookCh {
		t.Logf("hook channel %d: %+v", i, *h)
	}
	c := stat.For("C26", "replay")
	c26Check(c, t, plan, res, o)
}
