package props

import (
	"context"
	"encoding/json"
	"fmt"
	"runtime/debug"
	"sort"
	"testing"
	"time"

	"github.com/redis/rueidis"
	"github.com/redis/rueidis/rueidisprob"
	"pgregory.net/rapid"
	"verif/harness/sim"
	"verifkit/bubble"
	"verifkit/fakeredis"
	"verifkit/stat"
)

// ---------------------------------------------------------------------------------------------
// C37: sliding-window Bloom filters keep an item for at least half a window after the add.
//
// Timed histories in a synctest bubble: the filter's scripts read TIME from the fake server, which is
// the bubble's virtual clock, and the rotation lock key expires on the same clock. Rotations are
// observed through the value of the "last rotation" key, which only a rotation rewrites.
// ---------------------------------------------------------------------------------------------

type c37Op struct {
	GapMs int    `json:"gap_ms"` // virtual pause before the call
	Kind  string `json:"kind"`   // add addmulti exists existsmulti count reset delete
	Keys  []int  `json:"keys,omitempty"`
}

type c37Plan struct {
	N             uint     `json:"n"`
	Rate          float64  `json:"rate"`
	WindowMs      int      `json:"window_ms"`
	WindowExtraUs int      `json:"window_extra_us,omitempty"` // window = WindowMs ms + WindowExtraUs us
	Steady        bool     `json:"steady"`                    // steady traffic instead of calls aimed at the nominal rotation instants
	ReadOnly      bool     `json:"read_only"`
	Items         []string `json:"items"` // Go-quoted
	Ops           []c37Op  `json:"ops"`
}

type c37Obs struct {
	Done  bool
	At    time.Duration // virtual time of the call since the filter was created
	Took  time.Duration
	Err   string
	Bools []bool
	LR    string // value of the last-rotation key after the call
}

func genC37Plan(rt *rapid.T) c37Plan {
	var p c37Plan
	for {
		p.N, p.Rate = probConfig(rt, 1<<16, 0)
		if _, k := probSizing(p.N, p.Rate); k <= 64 {
			break
		}
	}
	// every window of at least one second is accepted: whole seconds, fractional seconds (1.9 s, 2.5 s,
	// 3.999 s), odd millisecond counts and (WindowExtraUs) windows that are not whole milliseconds
	p.WindowMs = rapid.OneOf(
		rapid.SampledFrom([]int{1000, 1001, 1500, 1900, 1999, 2000, 2500, 2999, 3333, 3999, 10000, 59999, 60000}),
		rapid.IntRange(1000, 4999),
		rapid.IntRange(1000, 60000),
	).Draw(rt, "windowMs")
	if rapid.IntRange(0, 4).Draw(rt, "subMs") == 3 {
		p.WindowExtraUs = rapid.IntRange(1, 999).Draw(rt, "windowExtraUs")
	}
	p.ReadOnly = rapid.IntRange(0, 2).Draw(rt, "readOnly") == 1
	p.Items = probItems(rt, 1, 12)
	h := p.WindowMs / 2
	guarantee := h - 2 // ms after an add during which the oracle demands presence
	// two kinds of schedules: "aimed" puts calls a few ms before and after the instants at which the
	// rotation lock (taken for half a window at every rotation) expires; "steady" is traffic with gaps far
	// below half a window, so that the filter rotates as early as it can, whatever its period is, and
	// queries ask for the oldest items that are still inside their guaranteed half window
	p.Steady = rapid.IntRange(0, 1).Draw(rt, "steady") == 1
	gap := rapid.OneOf(
		rapid.SampledFrom([]int{0, 0, 1, 2, h / 4, h / 2, h - 3, h - 2, h - 1, h, h + 1, 2 * h, 2*h + 1}),
		rapid.IntRange(0, h),
		rapid.IntRange(0, h/8),
		rapid.IntRange(0, 3*h),
	)
	maxOps := 25
	if p.Steady {
		maxOps = 45
		gap = rapid.OneOf(rapid.SampledFrom([]int{h / 12, h / 10, h / 8, h / 6, h / 5, h / 4, h / 3}), rapid.IntRange(1, max(2, h/6)), rapid.IntRange(0, max(2, h/3)))
	}
	nOps := rapid.IntRange(2, maxOps).Draw(rt, "nOps")
	if p.Steady {
		nOps = max(nOps, rapid.IntRange(10, maxOps).Draw(rt, "nOpsSteady"))
	}
	kinds := []string{"add", "add", "add", "addmulti", "exists", "exists", "exists", "existsmulti", "existsmulti", "add", "exists", "count", "reset", "delete"}
	lastAdd := map[int]int{} // item -> instant of its latest add since the last Reset/Delete
	var added []int
	anyKey := func() int { return rapid.IntRange(0, len(p.Items)-1).Draw(rt, "key") }
	// the generator follows the nominal rotation schedule (a script call at or after the expiry of the lock
	// taken h ms after the previous rotation rotates) only to aim calls at both sides of a rotation
	now, lockExp, destructive := 0, h, 0
	for i := 0; i < nOps; i++ {
		op := c37Op{Kind: rapid.SampledFrom(kinds).Draw(rt, "kind")}
		if op.Kind == "reset" || op.Kind == "delete" {
			if destructive++; destructive > 1 || rapid.IntRange(0, 3).Draw(rt, "really") != 1 {
				op.Kind = "exists"
			}
		}
		toRotation := lockExp - now
		if toRotation < 0 {
			toRotation = 0
		}
		gapKind := rapid.IntRange(0, 5).Draw(rt, "gapKind")
		if p.Steady {
			gapKind = 0
		}
		switch gapKind {
		case 1, 4:
			// shortly before the next rotation
			op.GapMs = toRotation - rapid.SampledFrom([]int{1, 1, 2, 5, h / 16, h / 8, h / 4}).Draw(rt, "before")
			if op.GapMs < 0 {
				op.GapMs = 0
			}
		case 2:
			// at or shortly after the next rotation
			op.GapMs = toRotation + rapid.SampledFrom([]int{0, 0, 1, 2, 5, h / 16}).Draw(rt, "after")
		default:
			op.GapMs = gap.Draw(rt, "gap")
		}
		now += op.GapMs
		if op.Kind != "count" && op.Kind != "reset" && op.Kind != "delete" && now >= lockExp {
			lockExp = now + h
		}
		key := anyKey
		if op.Kind == "exists" || op.Kind == "existsmulti" {
			key = func() int {
				switch v := rapid.IntRange(0, 5).Draw(rt, "queryWhat"); {
				case len(added) == 0 || v == 2:
					return anyKey()
				case v == 1 || v == 3 || (p.Steady && v != 4):
					// the item whose latest add is the oldest one still covered by the guarantee
					best, bestAge := -1, -1
					for it := range p.Items {
						if at, ok := lastAdd[it]; ok && now-at <= guarantee && now-at > bestAge {
							best, bestAge = it, now-at
						}
					}
					if best >= 0 {
						return best
					}
				}
				// a recent add
				lo := 0
				if len(added) > 3 && rapid.IntRange(0, 2).Draw(rt, "recent") != 1 {
					lo = len(added) - 3
				}
				return added[rapid.IntRange(lo, len(added)-1).Draw(rt, "addedKey")]
			}
		}
		switch op.Kind {
		case "add", "exists":
			op.Keys = []int{key()}
		case "addmulti", "existsmulti":
			nk := rapid.IntRange(0, 5).Draw(rt, "nKeys")
			op.Keys = []int{}
			for j := 0; j < nk; j++ {
				op.Keys = append(op.Keys, key())
			}
		}
		switch op.Kind {
		case "add", "addmulti":
			added = append(added, op.Keys...)
			for _, it := range op.Keys {
				lastAdd[it] = now
			}
		case "reset", "delete":
			added, lastAdd = nil, map[int]int{}
		}
		p.Ops = append(p.Ops, op)
	}
	return p
}

func c37Window(p c37Plan) time.Duration {
	return time.Duration(p.WindowMs)*time.Millisecond + time.Duration(p.WindowExtraUs)*time.Microsecond
}

func c37Run(t *testing.T, plan c37Plan) (res bubble.Result, ctorErr string, obs []c37Obs, panicked string, events []fakeredis.Event) {
	obs = make([]c37Obs, len(plan.Ops))
	items := probUnquote(plan.Items)
	res = bubble.Run(t, func() {
		w := fakeredis.NewWorld()
		srv := w.NewServer(probAddr)
		client := probClient(w)
		func() {
			defer func() {
				if p := recover(); p != nil {
					panicked = fmt.Sprintf("%v\n%s", p, debug.Stack())
				}
			}()
			var opts []rueidisprob.SlidingBloomFilterOptionFunc
			if plan.ReadOnly {
				opts = append(opts, rueidisprob.WithReadOnlyExists(true))
			}
			start := time.Now()
			bf, err := rueidisprob.NewSlidingBloomFilter(client, "sbf", plan.N, plan.Rate, c37Window(plan), opts...)
			if err != nil {
				ctorErr = errText(err)
				return
			}
			ctx := context.Background()
			keysOf := func(op c37Op) []string {
				ks := make([]string, len(op.Keys))
				for i, key := range op.Keys {
					ks[i] = items[key]
				}
				return ks
			}
			for i, op := range plan.Ops {
				time.Sleep(time.Duration(op.GapMs) * time.Millisecond)
				o := &obs[i]
				o.At = time.Since(start)
				var err error
				switch op.Kind {
				case "add":
					err = bf.Add(ctx, items[op.Keys[0]])
				case "addmulti":
					err = bf.AddMulti(ctx, keysOf(op))
				case "exists":
					var b bool
					b, err = bf.Exists(ctx, items[op.Keys[0]])
					o.Bools = []bool{b}
				case "existsmulti":
					o.Bools, err = bf.ExistsMulti(ctx, keysOf(op))
				case "count":
					_, err = bf.Count(ctx)
				case "reset":
					// the reset script has no return statement, so a successful Reset surfaces the null reply as
					// rueidis.Nil (the repository's own tests accept that); not part of this property
					if err = bf.Reset(ctx); rueidis.IsRedisNil(err) {
						err = nil
					}
				case "delete":
					err = bf.Delete(ctx)
				}
				o.Took = time.Since(start) - o.At
				o.Err = errText(err)
				if v := srv.Do("GET", "{sbf}:lr"); v.T == '$' {
					o.LR = v.S
				}
				o.Done = true
			}
		}()
		sim.CallTimeout(time.Minute, client.Close)
		w.Stop()
		events = w.Snapshot()
		time.Sleep(5 * time.Second)
	})
	return
}

func c37Check(c *stat.Collector, rt stat.Fataler, plan c37Plan, res bubble.Result, ctorErr string, obs []c37Obs, panicked string) (nt bool, classes []string, inconclusive bool) {
	cls := map[string]bool{}
	defer func() {
		for name := range cls {
			classes = append(classes, name)
		}
		sort.Strings(classes)
	}()
	m, k := probSizing(plan.N, plan.Rate)
	window := c37Window(plan)
	cfg := fmt.Sprintf("n=%d rate=%v (m=%d bits, k=%d hash functions) window=%v", plan.N, plan.Rate, m, k, window)
	if panicked != "" || res.Panic != nil {
		c.Fail(rt, "C37.no-panic", cfg+": "+panicked+res.String(), plan)
	}
	if probUnsupported(ctorErr) {
		return false, nil, true
	}
	for _, o := range obs {
		if probUnsupported(o.Err) {
			return false, nil, true
		}
	}
	if res.Deadlock {
		c.Fail(rt, "C37.no-hang", res.String(), plan)
	}
	if ctorErr != "" {
		c.Fail(rt, "C37.accepted-domain", fmt.Sprintf("NewSlidingBloomFilter with %s failed: %s", cfg, ctorErr), plan)
	}
	type addRec struct {
		at time.Duration
		lr string
		op int
	}
	last := map[int]addRec{} // latest successful add of each item since the last Reset/Delete
	deleted := false
	guarded, rotated := false, false
	guarantee := window/2 - 2*time.Millisecond
	query := func(i, pos, key int, got bool, o c37Obs, where string) {
		a, ok := last[key]
		if !ok {
			return
		}
		age := o.At - a.at
		if age > guarantee {
			cls["query-after-guaranteed-half-window"] = true
			if !got {
				cls["item-expired-after-half-window"] = true
			}
			return
		}
		guarded = true
		if a.lr != o.LR {
			rotated = true
		}
		if age >= guarantee-3*time.Millisecond {
			cls["query-within-3ms-of-the-guarantee-limit"] = true
		}
		if !got {
			c.Fail(rt, "C37.present-for-half-window", fmt.Sprintf("%s: item %s (position %d) was added by op %d at +%v, the query at +%v is %v later (half window %v), no Reset/Delete in between, yet it is reported absent; rotation stamp at the add %q, now %q", where, plan.Items[key], pos, a.op, a.at, o.At, age, window/2, a.lr, o.LR), plan)
		}
	}
	for i, op := range plan.Ops {
		o := obs[i]
		if !o.Done {
			c.Fail(rt, "C37.no-hang", fmt.Sprintf("op %d (%s) never returned: %s", i, op.Kind, res), plan)
		}
		where := fmt.Sprintf("op %d (%s %v at +%v) with %s", i, op.Kind, op.Keys, o.At, cfg)
		if o.Took != 0 {
			c.Fail(rt, "C37.harness", fmt.Sprintf("%s took %v of virtual time; the oracle assumes calls are instantaneous", where, o.Took), plan)
		}
		if o.Err != "" {
			if deleted {
				// after Delete the rotation inside the next script call renames a key that no longer exists;
				// calls after a Delete are outside the property
				cls["error-after-delete"] = true
				continue
			}
			c.Fail(rt, "C37.no-error", fmt.Sprintf("%s failed: %s", where, o.Err), plan)
		}
		switch op.Kind {
		case "add", "addmulti":
			for _, key := range op.Keys {
				last[key] = addRec{at: o.At, lr: o.LR, op: i}
			}
		case "exists":
			query(i, 0, op.Keys[0], o.Bools[0], o, where)
		case "existsmulti":
			if len(o.Bools) != len(op.Keys) {
				c.Fail(rt, "C37.positional", fmt.Sprintf("%s: ExistsMulti returned %d answers for %d keys", where, len(o.Bools), len(op.Keys)), plan)
			}
			for j, key := range op.Keys {
				query(i, j, key, o.Bools[j], o, where)
			}
		case "reset":
			last = map[int]addRec{}
			cls["reset"] = true
		case "delete":
			last = map[int]addRec{}
			deleted = true
			cls["delete"] = true
		}
	}
	stamps := map[string]bool{}
	for _, o := range obs {
		if o.LR != "" {
			stamps[o.LR] = true
		}
	}
	switch n := len(stamps); {
	case n <= 1:
		cls["rotations=0"] = true
	case n <= 3:
		cls["rotations=1..2"] = true
	default:
		cls["rotations>=3"] = true
	}
	switch {
	case k == 1:
		cls["k=1"] = true
	default:
		cls["k>=2"] = true
	}
	if plan.ReadOnly {
		cls["exists-readonly-script"] = true
	}
	if plan.WindowMs%2 == 1 {
		cls["odd-window-ms"] = true
	}
	if plan.WindowMs%1000 != 0 || plan.WindowExtraUs != 0 {
		cls["window-not-whole-seconds"] = true
		if plan.WindowMs < 5000 {
			cls["window-not-whole-seconds,below-5s"] = true
		}
	}
	if plan.WindowExtraUs != 0 {
		cls["window-not-whole-ms"] = true
	}
	cls[map[bool]string{true: "schedule=steady-traffic", false: "schedule=aimed-at-rotations"}[plan.Steady]] = true
	if guarded {
		cls["query-inside-guaranteed-half-window"] = true
	}
	if rotated {
		cls["rotation-between-add-and-guarded-query"] = true
	}
	return rotated, nil, false
}

func TestVerif_C37_SlidingBloom(t *testing.T) {
	c := stat.For("C37", "sliding-bloom").Rule("single client in a synctest bubble; the fake server runs the filter's real Lua scripts and answers TIME / expires the rotation lock on the bubble's virtual clock; windows 1-60 s: whole seconds, fractional seconds (1.5 s, 1.9 s, 1.999 s, 2.5 s, 3.999 s, uniform 1-5 s and 1-60 s in ms), odd millisecond counts and 20% with a sub-millisecond part; configurations over the accepted domain (k<=64, bitmap <= 2^16 bits), with and without WithReadOnlyExists; half of the plans 2-25 timed calls from {Add, AddMulti, Exists, ExistsMulti, Count, rarely Reset/Delete} with gaps aimed a few ms before/after the nominal rotation instants and around 0, 1/8, 1/4, 1/2 and 1 half-window up to 3 half-windows, the other half 2-45 calls of steady traffic (gaps of at most 1/3 half-window, mostly below 1/6) that lets the filter rotate as early as it can; queries prefer the item whose latest add is the oldest still inside the guaranteed half window, else recently added items; oracle: for the latest successful add of an item at t and a query at t' with t'-t <= window/2 - 2 ms and no Reset/Delete in between the item is reported present (Exists and the matching ExistsMulti position); non-trivial = the rotation stamp (value of the last-rotation key, rewritten only by a rotation) changed between that add and that query")
	defer c.Flush()
	rapid.Check(t, func(rt *rapid.T) {
		plan := genC37Plan(rt)
		saveCase("c37", plan)
		res, ctorErr, obs, panicked, _ := c37Run(t, plan)
		if res.Frozen {
			c.Inconclusive("virtual-clock-freeze")
			return
		}
		nt, classes, inconclusive := c37Check(c, rt, plan, res, ctorErr, obs, panicked)
		if inconclusive {
			c.Inconclusive("lua-unsupported")
			return
		}
		key, _ := json.Marshal(plan)
		c.Eval(nt, string(key), classes...)
		c.Sample(nt, func() any { return plan })
	})
}
