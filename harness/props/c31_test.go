package props

// C31 "Multi-key helpers map every key to its own reply".
//
// A plan is a short history of helper calls (MGet, MGetCache, JsonMGet, JsonMGetCache, MSet, MSetNX,
// MDel, JsonMSet) over a small key alphabet with duplicates and hash tags; between the calls
// "another client" rewrites keys (value, type, deletion), which also shapes the client-side cache
// (entries read before, entries invalidated in between, entries past their TTL). The oracle
// compares each returned map with what an external client reads from the server for every key
// right before / after the call, and scans the frames the server received during the call.
//
// c31Run takes the client constructor as a parameter: this file only plugs in a single client
// (ForceSingleClient); a cluster constructor can be added next to c31SingleClient together with
// the expectations of its per-slot command splitting (see c31Env.Kind).

import (
	"bytes"
	"context"
	"encoding/json"
	"errors"
	"fmt"
	"reflect"
	"runtime/debug"
	"sort"
	"strings"
	"sync"
	"testing"
	"time"

	"github.com/redis/rueidis"
	"pgregory.net/rapid"
	"verif/harness/sim"
	"verifkit/bubble"
	"verifkit/fakeredis"
	"verifkit/resp"
	"verifkit/stat"
)

type c31Cfg struct {
	DisableCache bool `json:"disable_cache"`
	RESP2        bool `json:"resp2"`
	// Multiplex is ClientOption.PipelineMultiplex: -1 = one pipelined connection, 0 = the default (four connections,
	// each with its own client-side cache; a key is served by the connection its slot selects).
	Multiplex int `json:"multiplex"`
}

type c31Write struct {
	Key   string `json:"key"`
	State string `json:"state"` // missing string hash list json
	Val   string `json:"val,omitempty"`
}

type c31KV struct {
	Key string `json:"key"`
	Val string `json:"val"`
}

type c31Step struct {
	SleepMs int        `json:"sleep_ms,omitempty"` // pause before the step (client-side cache TTLs run out)
	Ext     []c31Write `json:"ext,omitempty"`      // writes of another client before the call
	Helper  string     `json:"helper"`
	Keys    []string   `json:"keys,omitempty"` // MGet MGetCache JsonMGet JsonMGetCache MDel
	KVs     []c31KV    `json:"kvs,omitempty"`  // MSet MSetNX JsonMSet (distinct keys: the helpers take a map)
	Path    string     `json:"path,omitempty"`
	TTLMs   int        `json:"ttl_ms,omitempty"`
	Twin    bool       `json:"twin,omitempty"` // read helpers: the same call from two goroutines at once
}

type c31Plan struct {
	Cfg   c31Cfg     `json:"cfg"`
	Init  []c31Write `json:"init"`
	Steps []c31Step  `json:"steps"`
}

func (s c31Step) isRead() bool {
	switch s.Helper {
	case "MGet", "MGetCache", "JsonMGet", "JsonMGetCache":
		return true
	}
	return false
}

func (s c31Step) inputKeys() []string {
	if len(s.KVs) > 0 {
		out := make([]string, len(s.KVs))
		for i, kv := range s.KVs {
			out[i] = kv.Key
		}
		return out
	}
	return s.Keys
}

func c31Distinct(keys []string) []string {
	seen := map[string]bool{}
	var out []string
	for _, k := range keys {
		if !seen[k] {
			seen[k] = true
			out = append(out, k)
		}
	}
	return out
}

// c31Env is what a client constructor hands to the runner.
type c31Env struct {
	Client rueidis.Client
	// Kind selects the expectations that depend on how the helper splits its work:
	// "single" = one MGET / JSON.MGET / MSET / MSETNX / DEL / JSON.MSET for all keys (single, standalone, sentinel clients).
	Kind string
	// ServerFor returns the server an external client uses to read or write key.
	ServerFor func(key string) *fakeredis.Server
}

type c31Mk func(w *fakeredis.World, cfg c31Cfg) (c31Env, error)

func c31SingleClient(w *fakeredis.World, cfg c31Cfg) (c31Env, error) {
	srv := w.NewServer("127.0.0.1:6379")
	opt := sim.Option(w, "127.0.0.1:6379")
	opt.ForceSingleClient = true
	if queueLabel() == "ring" {
		opt.WriteBufferEachConn = 1 << 20
	}
	opt.DisableCache = cfg.DisableCache
	opt.PipelineMultiplex = cfg.Multiplex
	if cfg.RESP2 {
		opt.AlwaysRESP2 = true
		opt.DisableCache = true
	}
	client, err := rueidis.NewClient(opt)
	if err != nil {
		return c31Env{}, err
	}
	return c31Env{Client: client, Kind: "single", ServerFor: func(string) *fakeredis.Server { return srv }}, nil
}

type c31Probe struct {
	Type  string     // TYPE key
	Get   resp.Value // GET key
	JRoot resp.Value // JSON.GET key .
	JPath resp.Value // JSON.GET key <path of the step>
}

type c31Ret struct {
	Msgs  map[string]rueidis.RedisMessage
	Errs  map[string]error
	Err   error
	Panic string // the helper panicked in the caller's goroutine
}

type c31StepObs struct {
	Start, End int64
	Pre, Post  map[string]c31Probe
	Rets       []c31Ret
	Done       bool
}

type c31Obs struct {
	Steps   []*c31StepObs
	Events  []fakeredis.Event
	CloseOK bool
	Pending bool
	Kind    string
}

func c31Apply(srv *fakeredis.Server, wr c31Write) {
	srv.Do("DEL", wr.Key)
	switch wr.State {
	case "string":
		srv.Do("SET", wr.Key, wr.Val)
	case "hash":
		srv.Do("HSET", wr.Key, "f", wr.Val)
	case "list":
		srv.Do("RPUSH", wr.Key, wr.Val)
	case "json":
		if r := srv.Do("JSON.SET", wr.Key, "$", wr.Val); r.IsErr() {
			panic("harness: JSON.SET failed: " + r.String())
		}
	}
}

func c31Run(t *testing.T, plan c31Plan, mk c31Mk) (res bubble.Result, obs c31Obs) {
	var mu sync.Mutex
	for range plan.Steps {
		obs.Steps = append(obs.Steps, &c31StepObs{})
	}
	res = bubble.Run(t, func() {
		w := fakeredis.NewWorld()
		env, err := mk(w, plan.Cfg)
		if err != nil {
			panic(fmt.Sprintf("harness: client constructor failed: %v", err))
		}
		obs.Kind = env.Kind
		client := env.Client
		for _, wr := range plan.Init {
			c31Apply(env.ServerFor(wr.Key), wr)
		}
		seqNow := func() int64 {
			w.Lock()
			n := int64(len(w.Events))
			w.Unlock()
			return n
		}
		probe := func(st c31Step) map[string]c31Probe {
			out := map[string]c31Probe{}
			for _, k := range c31Distinct(st.inputKeys()) {
				srv := env.ServerFor(k)
				p := c31Probe{Type: srv.Do("TYPE", k).S, Get: srv.Do("GET", k), JRoot: srv.Do("JSON.GET", k, ".")}
				if st.Path != "" {
					p.JPath = srv.Do("JSON.GET", k, st.Path)
				}
				out[k] = p
			}
			return out
		}
		call := func(st c31Step) (r c31Ret) {
			defer func() {
				if p := recover(); p != nil {
					r.Panic = fmt.Sprintf("%v\n%s", p, debug.Stack())
				}
			}()
			ctx := context.Background()
			ttl := time.Duration(st.TTLMs) * time.Millisecond
			kvs := map[string]string{}
			for _, kv := range st.KVs {
				kvs[kv.Key] = kv.Val
			}
			switch st.Helper {
			case "MGet":
				r.Msgs, r.Err = rueidis.MGet(client, ctx, st.Keys)
			case "MGetCache":
				r.Msgs, r.Err = rueidis.MGetCache(client, ctx, ttl, st.Keys)
			case "JsonMGet":
				r.Msgs, r.Err = rueidis.JsonMGet(client, ctx, st.Keys, st.Path)
			case "JsonMGetCache":
				r.Msgs, r.Err = rueidis.JsonMGetCache(client, ctx, ttl, st.Keys, st.Path)
			case "MSet":
				r.Errs = rueidis.MSet(client, ctx, kvs)
			case "MSetNX":
				r.Errs = rueidis.MSetNX(client, ctx, kvs)
			case "MDel":
				r.Errs = rueidis.MDel(client, ctx, st.Keys)
			case "JsonMSet":
				r.Errs = rueidis.JsonMSet(client, ctx, kvs, st.Path)
			default:
				panic("harness: unknown helper " + st.Helper)
			}
			return r
		}
		var wg sync.WaitGroup
		wg.Add(1)
		go func() {
			defer wg.Done()
			for si, st := range plan.Steps {
				time.Sleep(time.Duration(st.SleepMs) * time.Millisecond)
				for _, wr := range st.Ext {
					c31Apply(env.ServerFor(wr.Key), wr)
				}
				if len(st.Ext) > 0 || plan.Cfg.Multiplex != -1 {
					// Invalidations travel asynchronously: those of another client's writes always, those of the client's
					// own earlier write whenever the key's cache lives on another connection than the one that wrote
					// (PipelineMultiplex). Only with a single connection the push precedes the write's reply, and the next
					// call may follow the write immediately.
					time.Sleep(2 * time.Millisecond)
				}
				o := obs.Steps[si]
				pre := probe(st)
				start := seqNow()
				n := 1
				if st.Twin {
					n = 2
				}
				rets := make([]c31Ret, n)
				var cw sync.WaitGroup
				for i := 0; i < n; i++ {
					cw.Add(1)
					go func(i int) { defer cw.Done(); rets[i] = call(st) }(i)
				}
				cw.Wait()
				end := seqNow()
				post := probe(st)
				mu.Lock()
				o.Pre, o.Post, o.Start, o.End, o.Rets, o.Done = pre, post, start, end, rets, true
				mu.Unlock()
			}
		}()
		finished := sim.WaitTimeout(&wg, 10*time.Minute)
		obs.Pending = !finished
		obs.CloseOK = sim.CallTimeout(time.Minute, client.Close)
		w.Stop()
		obs.Events = w.Snapshot()
		time.Sleep(5 * time.Second)
		if !finished {
			sim.WaitTimeout(&wg, time.Minute)
		}
	})
	return
}

// ---- generator

var c31Keys = []string{"{a}1", "{a}2", "{a}3", "{b}1", "{b}2", "k1", "k2", "k3", "k4", "k5", "k6", "", "sp ace", "bin\r\n\x00"}
var c31Strings = []string{"", "v1", "v2", "bin\r\n\x00\xff", "123", `{"a":1}`, "OK", "0"}
var c31Docs = []string{`{"a":1,"b":"x"}`, `{"a":[1,2],"c":null}`, `[1,"two"]`, `"str"`, `42`, `{"a":{"n":1}}`, `{"b":true}`}

func c31GenWrite(rt *rapid.T, key string) c31Write {
	wr := c31Write{Key: key, State: rapid.SampledFrom([]string{"missing", "missing", "missing", "string", "string", "string", "hash", "list", "json", "json", "json"}).Draw(rt, "state")}
	switch wr.State {
	case "json":
		wr.Val = rapid.SampledFrom(c31Docs).Draw(rt, "doc")
	case "missing":
	default:
		wr.Val = rapid.SampledFrom(c31Strings).Draw(rt, "val")
	}
	return wr
}

func genC31Plan(rt *rapid.T) c31Plan {
	var p c31Plan
	switch rapid.IntRange(0, 7).Draw(rt, "cfg") {
	case 0:
		p.Cfg.DisableCache = true
	case 1:
		p.Cfg.RESP2, p.Cfg.DisableCache = true, true
	}
	p.Cfg.Multiplex = rapid.SampledFrom([]int{-1, 0}).Draw(rt, "multiplex")
	for _, k := range c31Keys {
		p.Init = append(p.Init, c31GenWrite(rt, k))
	}
	helpers := []string{"MGet", "MGetCache", "MGetCache", "JsonMGet", "JsonMGetCache", "JsonMGetCache", "MSet", "MSetNX", "MDel", "JsonMSet"}
	// a history tends to stay within one family so that cached entries, own writes and reads meet on the same keys
	family := rapid.SampledFrom([]string{"any", "string", "json"}).Draw(rt, "family")
	switch family {
	case "string":
		helpers = []string{"MGet", "MGetCache", "MGetCache", "MGetCache", "MSet", "MSetNX", "MDel"}
	case "json":
		helpers = []string{"JsonMGet", "JsonMGetCache", "JsonMGetCache", "JsonMGetCache", "JsonMSet", "MDel"}
	}
	ns := rapid.IntRange(1, 5).Draw(rt, "steps")
	// the history's own key pool (a small one makes calls meet on the same keys: duplicates, cached entries, own writes)
	// and its usual JSON path (the path is part of a cached entry's identity)
	planPool := c31Keys
	if rapid.IntRange(0, 2).Draw(rt, "smallPlanPool") > 0 {
		planPool = c31Keys[:rapid.IntRange(1, 7).Draw(rt, "planPoolSize")]
	}
	planPath := rapid.SampledFrom([]string{"$", "$", ".", "$.a", ".a"}).Draw(rt, "planPath")
	for i := 0; i < ns; i++ {
		st := c31Step{Helper: rapid.SampledFrom(helpers).Draw(rt, "helper"), SleepMs: rapid.SampledFrom([]int{0, 0, 0, 1500}).Draw(rt, "sleep")}
		if i > 0 && (p.Steps[i-1].Helper == "MGetCache" || p.Steps[i-1].Helper == "JsonMGetCache") && rapid.Bool().Draw(rt, "readAgain") {
			st.Helper = p.Steps[i-1].Helper // the cache helper again: entries of the previous call are there, invalidated or expired
		}
		ne := rapid.IntRange(0, 3).Draw(rt, "ext")
		for j := 0; j < ne; j++ {
			st.Ext = append(st.Ext, c31GenWrite(rt, rapid.SampledFrom(planPool).Draw(rt, "extKey")))
		}
		pool := planPool
		if rapid.IntRange(0, 3).Draw(rt, "wholeAlphabet") == 0 {
			pool = c31Keys
		}
		empty := rapid.IntRange(0, 11).Draw(rt, "emptyInput") == 0
		switch st.Helper {
		case "MGet", "MGetCache", "JsonMGet", "JsonMGetCache", "MDel":
			st.Keys = []string{}
			if !empty {
				st.Keys = rapid.SliceOfN(rapid.SampledFrom(pool), 1, 20).Draw(rt, "keys")
			}
		default:
			if !empty {
				ks := rapid.SliceOfNDistinct(rapid.SampledFrom(pool), 1, len(pool), rapid.ID[string]).Draw(rt, "kvKeys")
				for _, k := range ks {
					v := ""
					if st.Helper == "JsonMSet" {
						v = rapid.SampledFrom(c31Docs).Draw(rt, "kvDoc")
					} else {
						v = rapid.SampledFrom(c31Strings).Draw(rt, "kvVal")
					}
					st.KVs = append(st.KVs, c31KV{k, v})
				}
				if st.Helper == "MSetNX" && rapid.IntRange(0, 2).Draw(rt, "nxFree") == 0 {
					// MSETNX only sets when no key exists: another client clears the way
					for _, k := range ks {
						st.Ext = append(st.Ext, c31Write{Key: k, State: "missing"})
					}
				}
			}
		}
		switch st.Helper {
		case "JsonMGet", "JsonMGetCache":
			st.Path = planPath
			if rapid.IntRange(0, 3).Draw(rt, "otherPath") == 0 {
				st.Path = rapid.SampledFrom([]string{"$", ".", "$.a", ".a"}).Draw(rt, "path")
			}
		case "JsonMSet":
			st.Path = rapid.SampledFrom([]string{"$", "$", "$", "$.a"}).Draw(rt, "path")
		}
		if st.Helper == "MGetCache" || st.Helper == "JsonMGetCache" {
			st.TTLMs = rapid.SampledFrom([]int{1000, 60000, 60000}).Draw(rt, "ttl")
		}
		if st.isRead() {
			st.Twin = rapid.IntRange(0, 4).Draw(rt, "twin") == 0
		}
		p.Steps = append(p.Steps, st)
	}
	return p
}

// ---- oracle

func c31JSONEqual(a, b string) bool {
	dec := func(s string) (any, error) {
		d := json.NewDecoder(bytes.NewReader([]byte(s)))
		d.UseNumber()
		var v any
		err := d.Decode(&v)
		return v, err
	}
	va, ea := dec(a)
	vb, eb := dec(b)
	return ea == nil && eb == nil && reflect.DeepEqual(va, vb)
}

func c31SameProbe(a, b c31Probe) bool {
	return a.Type == b.Type && a.Get.String() == b.Get.String() && a.JRoot.String() == b.JRoot.String()
}

// c31Expect is the reply the helper owes for key, derived from what an external client reads.
func c31Expect(kind string, cfg c31Cfg, st c31Step, p c31Probe) resp.Value {
	if kind != "single" {
		panic("harness: no expectations for client kind " + kind)
	}
	helper := st.Helper
	if helper == "MGetCache" && cfg.DisableCache {
		helper = "MGet" // documented fallback: isCacheDisabled => MGet
	}
	switch helper {
	case "MGet": // MGET: nil for missing keys and for keys that do not hold a string
		if p.Get.T == '$' {
			return p.Get
		}
		return resp.Null()
	case "MGetCache": // one GET per key: the key's own reply, WRONGTYPE included
		return p.Get
	case "JsonMGet": // JSON.MGET: nil for missing keys, non-JSON keys and paths that do not exist
		if p.JPath.T == '$' {
			return p.JPath
		}
		return resp.Null()
	case "JsonMGetCache": // one JSON.GET per key
		return p.JPath
	}
	panic("harness: not a read helper: " + helper)
}

// c31FrameKeys extracts the keys of a frame; known=false for a frame that is neither a data command
// of the helpers nor a command the client sends on its own.
func c31FrameKeys(argv []string) (keys []string, known bool) {
	switch strings.ToUpper(argv[0]) {
	case "MGET", "DEL", "UNLINK":
		return argv[1:], true
	case "GET", "PTTL", "SET", "SETNX", "JSON.GET", "JSON.SET":
		if len(argv) > 1 {
			return argv[1:2], true
		}
		return nil, true
	case "JSON.MGET":
		if len(argv) > 2 {
			return argv[1 : len(argv)-1], true
		}
		return nil, true
	case "MSET", "MSETNX":
		for i := 1; i < len(argv); i += 2 {
			keys = append(keys, argv[i])
		}
		return keys, true
	case "JSON.MSET":
		for i := 1; i < len(argv); i += 3 {
			keys = append(keys, argv[i])
		}
		return keys, true
	}
	return nil, sim.ClientInternal(argv)
}

// c31KeyLog lists the events that mention key (frames, external writes, invalidation pushes), for reports.
func c31KeyLog(events []fakeredis.Event, key string) string {
	var b strings.Builder
	for _, e := range events {
		hit := false
		for _, a := range e.Argv {
			if a == key {
				hit = true
			}
		}
		if e.Kind == "push" && e.Reply != nil && strings.Contains(e.Reply.String(), fmt.Sprintf("%q", key)) {
			hit = true
		}
		if e.Kind == "recv" && len(e.Argv) > 0 {
			switch strings.ToUpper(e.Argv[0]) {
			case "MULTI", "EXEC", "CLIENT":
				hit = true
			}
		}
		if hit && (e.Kind == "recv" || e.Kind == "push" || e.Kind == "reply" || (e.Kind == "exec" && len(e.Argv) > 0 && e.Argv[0] != "TYPE" && e.Argv[0] != "GET" && e.Argv[0] != "JSON.GET")) {
			fmt.Fprintf(&b, "  %s\n", e.String())
		}
	}
	return b.String()
}

func c31Check(c *stat.Collector, rt stat.Fataler, plan c31Plan, res bubble.Result, obs c31Obs) (nt bool, classes []string) {
	if obs.Pending || res.Deadlock {
		c.Fail(rt, "C31.no-hang", fmt.Sprintf("a helper call never returned (%s)", res), plan)
	}
	if res.Panic != nil {
		c.Fail(rt, "C31.no-panic", res.String(), plan)
	}
	if res.Leak {
		c.Fail(rt, "C31.no-leak", res.String(), plan)
	}
	if !obs.CloseOK {
		c.Fail(rt, "C31.no-hang", "Client.Close did not return within a virtual minute", plan)
	}
	cls := map[string]bool{}
	cachedBefore := map[string]bool{} // helper + path + key read through a cache helper in an earlier step
	for si, st := range plan.Steps {
		o := obs.Steps[si]
		if !o.Done {
			continue
		}
		where := fmt.Sprintf("step %d (%s)", si, st.Helper)
		input := st.inputKeys()
		distinct := c31Distinct(input)
		inSet := map[string]bool{}
		for _, k := range distinct {
			inSet[k] = true
		}
		cls["helper:"+st.Helper] = true

		// frames of the call
		var frames [][]string
		sent := map[string]int{}
		fetched := map[string]bool{}
		for i := range obs.Events {
			e := &obs.Events[i]
			if e.Kind != "recv" || e.Conn < 0 || !(o.Start < e.Seq && e.Seq <= o.End) || len(e.Argv) == 0 {
				continue
			}
			keys, known := c31FrameKeys(e.Argv)
			if !known {
				c.Fail(rt, "C31.only-input-keys", fmt.Sprintf("%s: server received %q, which is neither a command of the helper nor client-internal", where, trunc(e.Argv)), plan)
			}
			for _, k := range keys {
				if !inSet[k] {
					c.Fail(rt, "C31.only-input-keys", fmt.Sprintf("%s: frame %q names key %q, which is not among the input keys %q", where, trunc(e.Argv), k, distinct), plan)
				}
			}
			if n := strings.ToUpper(e.Argv[0]); n != "PTTL" && len(keys) > 0 {
				frames = append(frames, e.Argv)
				for _, k := range keys {
					sent[k]++
					fetched[k] = true
				}
			}
		}
		if len(input) == 0 && len(frames) > 0 {
			c.Fail(rt, "C31.empty-input", fmt.Sprintf("%s: empty input, yet the server received %q", where, frames), plan)
		}

		for ri, r := range o.Rets {
			who := where
			if len(o.Rets) > 1 {
				who = fmt.Sprintf("%s call %d", where, ri)
			}
			if r.Panic != "" {
				c.Fail(rt, "C31.no-panic", fmt.Sprintf("%s panicked: %s", who, r.Panic), plan)
			}
			if st.isRead() {
				if r.Err != nil {
					c.Fail(rt, "C31.unexpected-error", fmt.Sprintf("%s returned error %v although nothing failed", who, r.Err), plan)
				}
				if r.Msgs == nil {
					c.Fail(rt, "C31.key-set", fmt.Sprintf("%s returned a nil map without an error", who), plan)
				}
				var got []string
				for k := range r.Msgs {
					got = append(got, k)
				}
				sort.Strings(got)
				want := append([]string(nil), distinct...)
				sort.Strings(want)
				if strings.Join(got, "\x01") != strings.Join(want, "\x01") || len(got) != len(want) {
					c.Fail(rt, "C31.key-set", fmt.Sprintf("%s: the map has keys %q, the input keys are %q", who, got, want), plan)
				}
				for _, k := range distinct {
					// reads do not change the server: what another client reads before and after the call is the key's value
					if !c31SameProbe(o.Pre[k], o.Post[k]) {
						c.Fail(rt, "C31.read-changed-server", fmt.Sprintf("%s: key %q changed during a read helper: %+v -> %+v", who, k, o.Pre[k], o.Post[k]), plan)
					}
					exp := c31Expect(obs.Kind, plan.Cfg, st, o.Post[k])
					m := r.Msgs[k]
					if err := sim.Match(m, exp); err != nil {
						c.Fail(rt, "C31.own-reply", fmt.Sprintf("%s: entry of key %q (server: type %s): %v\nserver log for the key:\n%s", who, k, o.Post[k].Type, err, c31KeyLog(obs.Events, k)), plan)
					}
					if exp.T == '_' {
						if !m.IsNil() || !rueidis.IsRedisNil(m.Error()) {
							c.Fail(rt, "C31.own-reply", fmt.Sprintf("%s: entry of missing key %q is %s, want a nil message", who, k, m.String()), plan)
						}
						cls["entry:nil"] = true
					} else if exp.IsErr() {
						cls["entry:error"] = true
					} else {
						cls["entry:value"] = true
					}
				}
				continue
			}
			// write helpers
			if r.Errs == nil {
				c.Fail(rt, "C31.key-set", fmt.Sprintf("%s returned a nil map", who), plan)
			}
			var got []string
			for k := range r.Errs {
				got = append(got, k)
			}
			sort.Strings(got)
			want := append([]string(nil), distinct...)
			sort.Strings(want)
			if strings.Join(got, "\x01") != strings.Join(want, "\x01") || len(got) != len(want) {
				c.Fail(rt, "C31.key-set", fmt.Sprintf("%s: the map has keys %q, the input keys are %q", who, got, want), plan)
			}
			if len(distinct) == 0 {
				continue
			}
			if obs.Kind != "single" {
				panic("harness: no write expectations for client kind " + obs.Kind)
			}
			val := map[string]string{}
			for _, kv := range st.KVs {
				val[kv.Key] = kv.Val
			}
			allNil := func() {
				for _, k := range distinct {
					if r.Errs[k] != nil {
						c.Fail(rt, "C31.own-reply", fmt.Sprintf("%s: entry of key %q is error %v although the server accepted the command", who, k, r.Errs[k]), plan)
					}
				}
			}
			unchanged := func(why string) {
				for _, k := range distinct {
					if !c31SameProbe(o.Pre[k], o.Post[k]) {
						c.Fail(rt, "C31.server-state", fmt.Sprintf("%s: %s, yet key %q changed: %+v -> %+v", who, why, k, o.Pre[k], o.Post[k]), plan)
					}
				}
			}
			switch st.Helper {
			case "MSet":
				allNil()
				for _, k := range distinct {
					if p := o.Post[k]; p.Type != "string" || p.Get.S != val[k] {
						c.Fail(rt, "C31.server-state", fmt.Sprintf("%s: after MSet key %q holds type %s value %s, want string %q", who, k, p.Type, p.Get, val[k]), plan)
					}
				}
			case "MSetNX":
				exists := false
				for _, k := range distinct {
					if o.Pre[k].Type != "none" {
						exists = true
					}
				}
				if exists {
					// one MSETNX for all keys: nothing is set if any key exists, and every key reports ErrMSetNXNotSet
					for _, k := range distinct {
						if !errors.Is(r.Errs[k], rueidis.ErrMSetNXNotSet) {
							c.Fail(rt, "C31.own-reply", fmt.Sprintf("%s: an input key existed, entry of key %q is %v, want ErrMSetNXNotSet", who, k, r.Errs[k]), plan)
						}
					}
					unchanged("MSETNX set nothing")
					cls["msetnx-not-set"] = true
				} else {
					allNil()
					for _, k := range distinct {
						if p := o.Post[k]; p.Type != "string" || p.Get.S != val[k] {
							c.Fail(rt, "C31.server-state", fmt.Sprintf("%s: after MSetNX key %q holds type %s value %s, want string %q", who, k, p.Type, p.Get, val[k]), plan)
						}
					}
					cls["msetnx-set"] = true
				}
			case "MDel":
				allNil()
				for _, k := range distinct {
					if p := o.Post[k]; p.Type != "none" {
						c.Fail(rt, "C31.server-state", fmt.Sprintf("%s: after MDel key %q still holds a %s", who, k, p.Type), plan)
					}
				}
			case "JsonMSet":
				// JSON.MSET fails as a whole if a key holds another type (and, below the root, if a key is missing)
				bad, fails := "", false
				for _, k := range distinct {
					t := o.Pre[k].Type
					if t != "ReJSON-RL" && !(t == "none" && st.Path == "$") {
						bad, fails = k, true
					}
				}
				if fails {
					for _, k := range distinct {
						if err := r.Errs[k]; err == nil || !sim.IsReplyError(err) {
							c.Fail(rt, "C31.own-reply", fmt.Sprintf("%s: key %q (type %s) makes JSON.MSET fail, entry of key %q is %v, want the error reply", who, bad, o.Pre[bad].Type, k, err), plan)
						}
					}
					cls["jsonmset-error"] = true
					break
				}
				allNil()
				for _, k := range distinct {
					p := o.Post[k]
					switch {
					case st.Path == "$":
						if p.Type != "ReJSON-RL" || !c31JSONEqual(p.JRoot.S, val[k]) {
							c.Fail(rt, "C31.server-state", fmt.Sprintf("%s: after JsonMSet key %q holds type %s document %s, want %s", who, k, p.Type, p.JRoot, val[k]), plan)
						}
					case strings.HasPrefix(o.Pre[k].JRoot.S, "{"):
						if !c31JSONEqual(p.JPath.S, "["+val[k]+"]") {
							c.Fail(rt, "C31.server-state", fmt.Sprintf("%s: after JsonMSet at %s key %q reads %s, want [%s]", who, st.Path, k, p.JPath, val[k]), plan)
						}
					}
				}
			}
			for _, k := range distinct {
				if sent[k] == 0 {
					c.Fail(rt, "C31.server-state", fmt.Sprintf("%s: key %q never reached the server (frames %q)", who, k, frames), plan)
				}
			}
		}

		// classes of the step
		dup := len(input) > len(distinct)
		states := map[string]bool{}
		for _, k := range distinct {
			t := o.Pre[k].Type
			switch {
			case t == "none":
				states["missing"] = true
			case (t == "ReJSON-RL") == strings.HasPrefix(st.Helper, "Json") && (t == "string" || t == "ReJSON-RL"):
				states["present"] = true
			default:
				states["wrong-type"] = true
			}
		}
		mix := len(states) >= 2
		if len(input) == 0 {
			cls["empty-input"] = true
		}
		if dup {
			cls["duplicates"] = true
		}
		if mix {
			cls["mixed-states"] = true
		}
		if len(states) == 3 {
			cls["mixed-states:all-three"] = true
		}
		if len(distinct) >= 8 {
			cls["keys>=8"] = true
		}
		if st.Twin {
			cls["twin"] = true
		}
		if (st.Helper == "MGetCache" || st.Helper == "JsonMGetCache") && !plan.Cfg.DisableCache && len(distinct) > 0 {
			hit := 0
			for _, k := range distinct {
				if !fetched[k] {
					hit++
				}
			}
			switch {
			case hit == len(distinct):
				cls["cache:all-local"] = true
			case hit > 0:
				cls["cache:partly-local"] = true
			default:
				cls["cache:all-fetched"] = true
			}
			if hit > 0 && len(st.Ext) > 0 {
				cls["cache:local-after-foreign-writes"] = true
			}
			for _, wr := range st.Ext {
				if inSet[wr.Key] && fetched[wr.Key] && cachedBefore[st.Helper+"\x00"+st.Path+"\x00"+wr.Key] {
					cls["cache:refetched-after-invalidation"] = true
				}
			}
			for _, k := range distinct {
				cachedBefore[st.Helper+"\x00"+st.Path+"\x00"+k] = true
			}
		}
		if (len(distinct) >= 3 && dup) || mix {
			nt = true
		}
	}
	if plan.Cfg.RESP2 {
		cls["resp2"] = true
	} else if plan.Cfg.DisableCache {
		cls["disable-cache"] = true
	}
	if plan.Cfg.Multiplex == -1 {
		cls["one-connection"] = true
	} else {
		cls["four-connections"] = true
	}
	for k := range cls {
		classes = append(classes, k)
	}
	sort.Strings(classes)
	return nt, classes
}

func TestVerif_C31_Helpers(t *testing.T) {
	c := stat.For("C31", "helpers-single-"+queueLabel()).Rule("histories of 1-5 helper calls in a synctest bubble, single client (ForceSingleClient) against the fake server: helper in {MGet, MGetCache, JsonMGet, JsonMGetCache, MSet, MSetNX, MDel, JsonMSet}, 0-20 keys from a 14-key alphabet with hash tags, an empty key and binary bytes, duplicates, per-key state in {missing, string, hash, list, JSON document}, JSON paths $ . $.a .a, another client rewriting 0-3 keys before each call (value / type / deletion, shaping the client-side cache: entries read before, invalidated in between, past their TTL), cache on / DisableCache / RESP2, read helpers optionally from two goroutines at once; oracle: the returned map's key set == distinct input keys, each read entry == what an external client reads for that key right after the call under the helper's command semantics (MGET/JSON.MGET nil for wrong type, GET/JSON.GET the key's own error), write entries nil or the command's error (MSetNX all ErrMSetNXNotSet and nothing changed if a key existed), server state afterwards == input, frames received during the call name only input keys, empty input => empty map and no frame; non-trivial = a call with >= 3 distinct keys and duplicates, or a mix of missing / wrong-type / present keys")
	defer c.Flush()
	rapid.Check(t, func(rt *rapid.T) {
		plan := genC31Plan(rt)
		saveCase("c31", plan)
		res, obs := c31Run(t, plan, c31SingleClient)
		if res.Frozen {
			c.Inconclusive("virtual-clock-freeze")
			return
		}
		nt, classes := c31Check(c, rt, plan, res, obs)
		key, _ := json.Marshal(plan)
		c.Eval(nt, string(key), classes...)
		c.Sample(nt, func() any { return plan })
	})
}
