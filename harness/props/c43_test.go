package props

import (
	"context"
	"encoding/json"
	"fmt"
	"reflect"
	"strings"
	"testing"
	"time"

	"github.com/redis/rueidis"
	"github.com/redis/rueidis/mock"
	"github.com/redis/rueidis/rueidishook"
	"pgregory.net/rapid"
	"verifkit/stat"
)

// ---------------------------------------------------------------------------------------------
// C43: a client wrapped with rueidishook.WithHook routes every Do, DoMulti, DoCache, DoMultiCache,
// Receive, DoStream and DoMultiStream call (also through Dedicated, Dedicate and the clients
// returned by Nodes) through the hook exactly once and returns the hook's result unchanged.
//
// No server: the wrapped client is a hand written recording rueidis.Client. Hook and inner client
// append to one event log; every value they return carries a unique tag.
// ---------------------------------------------------------------------------------------------

type c43Call struct {
	Method string     `json:"m"`              // Do DoMulti DoCache DoMultiCache Receive DoStream DoMultiStream | B Mode Close SetPubSubHooks SetOnInvalidations
	Cmds   [][]string `json:"cmds,omitempty"` // argv of each command
	TTLms  []int64    `json:"ttl_ms,omitempty"`
	Hook   string     `json:"hook,omitempty"` // pass (return what next returned) | replace (call next, return an own value) | short (do not call next)
}

type c43Step struct {
	Path  []int     `json:"path"` // indexes into Nodes() (sorted by address), applied from the wrapped client downwards
	Via   string    `json:"via"`  // client | dedicated (inside Dedicated(fn)) | dedicate (Dedicate())
	Calls []c43Call `json:"calls"`
}

type c43Prog struct {
	Fanout []int     `json:"fanout"`          // number of Nodes() at depth 0,1,2 (depth 3 has none)
	Stack  bool      `json:"stack,omitempty"` // a second, pass-through hook is wrapped around the recorded one
	Steps  []c43Step `json:"steps"`
}

var c43Hooked = map[string]bool{"Do": true, "DoMulti": true, "DoCache": true, "DoMultiCache": true, "Receive": true, "DoStream": true, "DoMultiStream": true}

type c43Event struct {
	Layer  string // hook | inner
	Target string // inner: name of the recording client that was reached
	Method string
	Argv   [][]string
	Cmds   []rueidis.Completed
	CCmds  []rueidis.Cacheable
	TTLs   []time.Duration
	Ctx    context.Context
	Fn     func(rueidis.PubSubMessage)
	// what this layer returned
	Res    []rueidis.RedisResult
	Err    error
	Stream rueidis.RedisResultStream
	Msg    string // inner Receive: the message delivered to fn
}

type c43World struct {
	events []*c43Event
	seq    int
	mode   string // behaviour of the hook for the running call
	fanout []int
	outer  int // invocations of the outer hook layer (stacked programs)
}

func (w *c43World) tag(layer string) string {
	w.seq++
	return fmt.Sprintf("%s#%d", layer, w.seq)
}

func c43Argv(cmds []rueidis.Completed) [][]string {
	out := make([][]string, len(cmds))
	for i := range cmds {
		out[i] = append([]string{}, cmds[i].Commands()...)
	}
	return out
}

func c43CArgv(cmds []rueidis.Cacheable) [][]string {
	out := make([][]string, len(cmds))
	for i := range cmds {
		out[i] = append([]string{}, cmds[i].Commands()...)
	}
	return out
}

// the builder of the gomock based mock client is the only exported way to obtain a Builder without a connection
var c43Builder = mock.NewClient(nil).B()

// ---- inner recording client -------------------------------------------------------------------

type c43Core struct {
	w    *c43World
	name string
}

func (c *c43Core) add(e *c43Event) *c43Event {
	e.Layer, e.Target = "inner", c.name
	c.w.events = append(c.w.events, e)
	return e
}

func (c *c43Core) results(n int) []rueidis.RedisResult {
	out := make([]rueidis.RedisResult, n)
	for i := range out {
		out[i] = rueidis.NewResult(mock.RedisString(c.w.tag("inner")), nil)
	}
	return out
}

func (c *c43Core) B() rueidis.Builder { return c43Builder }

func (c *c43Core) Do(ctx context.Context, cmd rueidis.Completed) rueidis.RedisResult {
	e := c.add(&c43Event{Method: "Do", Argv: c43Argv([]rueidis.Completed{cmd}), Cmds: []rueidis.Completed{cmd}, Ctx: ctx})
	e.Res = c.results(1)
	return e.Res[0]
}

func (c *c43Core) DoMulti(ctx context.Context, multi ...rueidis.Completed) []rueidis.RedisResult {
	e := c.add(&c43Event{Method: "DoMulti", Argv: c43Argv(multi), Cmds: append([]rueidis.Completed{}, multi...), Ctx: ctx})
	e.Res = c.results(len(multi))
	return e.Res
}

func (c *c43Core) Receive(ctx context.Context, subscribe rueidis.Completed, fn func(msg rueidis.PubSubMessage)) error {
	e := c.add(&c43Event{Method: "Receive", Argv: c43Argv([]rueidis.Completed{subscribe}), Cmds: []rueidis.Completed{subscribe}, Ctx: ctx, Fn: fn})
	e.Msg = c.w.tag("msg")
	if fn != nil {
		fn(rueidis.PubSubMessage{Channel: "ch", Message: e.Msg})
	}
	e.Err = fmt.Errorf("%s", c.w.tag("inner-recv-err"))
	return e.Err
}

func (c *c43Core) Close() {}

type c43Inner struct {
	c43Core
	depth int
}

func (c *c43Inner) DoCache(ctx context.Context, cmd rueidis.Cacheable, ttl time.Duration) rueidis.RedisResult {
	e := c.add(&c43Event{Method: "DoCache", Argv: c43CArgv([]rueidis.Cacheable{cmd}), CCmds: []rueidis.Cacheable{cmd}, TTLs: []time.Duration{ttl}, Ctx: ctx})
	e.Res = c.results(1)
	return e.Res[0]
}

func (c *c43Inner) DoMultiCache(ctx context.Context, multi ...rueidis.CacheableTTL) []rueidis.RedisResult {
	e := &c43Event{Method: "DoMultiCache", Ctx: ctx}
	for _, m := range multi {
		e.CCmds = append(e.CCmds, m.Cmd)
		e.TTLs = append(e.TTLs, m.TTL)
	}
	e.Argv = c43CArgv(e.CCmds)
	c.add(e)
	e.Res = c.results(len(multi))
	return e.Res
}

func (c *c43Inner) DoStream(ctx context.Context, cmd rueidis.Completed) rueidis.RedisResultStream {
	e := c.add(&c43Event{Method: "DoStream", Argv: c43Argv([]rueidis.Completed{cmd}), Cmds: []rueidis.Completed{cmd}, Ctx: ctx})
	e.Stream = rueidis.NewErrorResultStream(fmt.Errorf("%s", c.w.tag("inner-stream")))
	return e.Stream
}

func (c *c43Inner) DoMultiStream(ctx context.Context, multi ...rueidis.Completed) rueidis.MultiRedisResultStream {
	e := c.add(&c43Event{Method: "DoMultiStream", Argv: c43Argv(multi), Cmds: append([]rueidis.Completed{}, multi...), Ctx: ctx})
	e.Stream = rueidis.NewErrorResultStream(fmt.Errorf("%s", c.w.tag("inner-mstream")))
	return e.Stream
}

func (c *c43Inner) Dedicated(fn func(rueidis.DedicatedClient) error) error {
	return fn(&c43Ded{c43Core{w: c.w, name: c.name + "!dedicated"}})
}

func (c *c43Inner) Dedicate() (rueidis.DedicatedClient, func()) {
	return &c43Ded{c43Core{w: c.w, name: c.name + "!dedicate"}}, func() {}
}

// Nodes returns a fresh map on every call, like the single, sentinel and cluster clients do.
func (c *c43Inner) Nodes() map[string]rueidis.Client {
	out := map[string]rueidis.Client{}
	if c.depth < len(c.w.fanout) {
		for i := 0; i < c.w.fanout[c.depth]; i++ {
			out[fmt.Sprintf("10.0.%d.%d:6379", c.depth, i)] = &c43Inner{c43Core{w: c.w, name: fmt.Sprintf("%s/%d", c.name, i)}, c.depth + 1}
		}
	}
	return out
}

func (c *c43Inner) Mode() rueidis.ClientMode { return rueidis.ClientModeCluster }

type c43Ded struct{ c43Core }

func (c *c43Ded) SetPubSubHooks(hooks rueidis.PubSubHooks) <-chan error {
	ch := make(chan error, 1)
	return ch
}

func (c *c43Ded) SetOnInvalidations(fn func([]rueidis.RedisMessage)) <-chan error {
	ch := make(chan error, 1)
	return ch
}

var _ rueidis.Client = (*c43Inner)(nil)
var _ rueidis.DedicatedClient = (*c43Ded)(nil)

// ---- hook ---------------------------------------------------------------------------------------

type c43Hook struct{ w *c43World }

// c43Outer is a second hook layer that only counts and passes through.
type c43Outer struct{ w *c43World }

func (h *c43Outer) Do(client rueidis.Client, ctx context.Context, cmd rueidis.Completed) rueidis.RedisResult {
	h.w.outer++
	return client.Do(ctx, cmd)
}
func (h *c43Outer) DoMulti(client rueidis.Client, ctx context.Context, multi ...rueidis.Completed) []rueidis.RedisResult {
	h.w.outer++
	return client.DoMulti(ctx, multi...)
}
func (h *c43Outer) DoCache(client rueidis.Client, ctx context.Context, cmd rueidis.Cacheable, ttl time.Duration) rueidis.RedisResult {
	h.w.outer++
	return client.DoCache(ctx, cmd, ttl)
}
func (h *c43Outer) DoMultiCache(client rueidis.Client, ctx context.Context, multi ...rueidis.CacheableTTL) []rueidis.RedisResult {
	h.w.outer++
	return client.DoMultiCache(ctx, multi...)
}
func (h *c43Outer) Receive(client rueidis.Client, ctx context.Context, subscribe rueidis.Completed, fn func(msg rueidis.PubSubMessage)) error {
	h.w.outer++
	return client.Receive(ctx, subscribe, fn)
}
func (h *c43Outer) DoStream(client rueidis.Client, ctx context.Context, cmd rueidis.Completed) rueidis.RedisResultStream {
	h.w.outer++
	return client.DoStream(ctx, cmd)
}
func (h *c43Outer) DoMultiStream(client rueidis.Client, ctx context.Context, multi ...rueidis.Completed) rueidis.MultiRedisResultStream {
	h.w.outer++
	return client.DoMultiStream(ctx, multi...)
}

func (h *c43Hook) add(e *c43Event) *c43Event {
	e.Layer = "hook"
	h.w.events = append(h.w.events, e)
	return e
}

func (h *c43Hook) own(n int) []rueidis.RedisResult {
	out := make([]rueidis.RedisResult, n)
	for i := range out {
		out[i] = rueidis.NewResult(mock.RedisString(h.w.tag("hook")), nil)
	}
	return out
}

func (h *c43Hook) Do(client rueidis.Client, ctx context.Context, cmd rueidis.Completed) (resp rueidis.RedisResult) {
	e := h.add(&c43Event{Method: "Do", Argv: c43Argv([]rueidis.Completed{cmd}), Cmds: []rueidis.Completed{cmd}, Ctx: ctx})
	if h.w.mode != "short" {
		resp = client.Do(ctx, cmd)
	}
	if h.w.mode != "pass" {
		resp = h.own(1)[0]
	}
	e.Res = []rueidis.RedisResult{resp}
	return resp
}

func (h *c43Hook) DoMulti(client rueidis.Client, ctx context.Context, multi ...rueidis.Completed) (resps []rueidis.RedisResult) {
	e := h.add(&c43Event{Method: "DoMulti", Argv: c43Argv(multi), Cmds: append([]rueidis.Completed{}, multi...), Ctx: ctx})
	if h.w.mode != "short" {
		resps = client.DoMulti(ctx, multi...)
	}
	if h.w.mode != "pass" {
		resps = h.own(len(multi))
	}
	e.Res = resps
	return resps
}

func (h *c43Hook) DoCache(client rueidis.Client, ctx context.Context, cmd rueidis.Cacheable, ttl time.Duration) (resp rueidis.RedisResult) {
	e := h.add(&c43Event{Method: "DoCache", Argv: c43CArgv([]rueidis.Cacheable{cmd}), CCmds: []rueidis.Cacheable{cmd}, TTLs: []time.Duration{ttl}, Ctx: ctx})
	if h.w.mode != "short" {
		resp = client.DoCache(ctx, cmd, ttl)
	}
	if h.w.mode != "pass" {
		resp = h.own(1)[0]
	}
	e.Res = []rueidis.RedisResult{resp}
	return resp
}

func (h *c43Hook) DoMultiCache(client rueidis.Client, ctx context.Context, multi ...rueidis.CacheableTTL) (resps []rueidis.RedisResult) {
	e := &c43Event{Method: "DoMultiCache", Ctx: ctx}
	for _, m := range multi {
		e.CCmds = append(e.CCmds, m.Cmd)
		e.TTLs = append(e.TTLs, m.TTL)
	}
	e.Argv = c43CArgv(e.CCmds)
	h.add(e)
	if h.w.mode != "short" {
		resps = client.DoMultiCache(ctx, multi...)
	}
	if h.w.mode != "pass" {
		resps = h.own(len(multi))
	}
	e.Res = resps
	return resps
}

func (h *c43Hook) Receive(client rueidis.Client, ctx context.Context, subscribe rueidis.Completed, fn func(msg rueidis.PubSubMessage)) (err error) {
	e := h.add(&c43Event{Method: "Receive", Argv: c43Argv([]rueidis.Completed{subscribe}), Cmds: []rueidis.Completed{subscribe}, Ctx: ctx, Fn: fn})
	if h.w.mode != "short" {
		err = client.Receive(ctx, subscribe, fn)
	}
	if h.w.mode != "pass" {
		err = fmt.Errorf("%s", h.w.tag("hook-recv-err"))
	}
	e.Err = err
	return err
}

func (h *c43Hook) DoStream(client rueidis.Client, ctx context.Context, cmd rueidis.Completed) (s rueidis.RedisResultStream) {
	e := h.add(&c43Event{Method: "DoStream", Argv: c43Argv([]rueidis.Completed{cmd}), Cmds: []rueidis.Completed{cmd}, Ctx: ctx})
	if h.w.mode != "short" {
		s = client.DoStream(ctx, cmd)
	}
	if h.w.mode != "pass" {
		s = rueidishook.NewErrorResultStream(fmt.Errorf("%s", h.w.tag("hook-stream")))
	}
	e.Stream = s
	return s
}

func (h *c43Hook) DoMultiStream(client rueidis.Client, ctx context.Context, multi ...rueidis.Completed) (s rueidis.MultiRedisResultStream) {
	e := h.add(&c43Event{Method: "DoMultiStream", Argv: c43Argv(multi), Cmds: append([]rueidis.Completed{}, multi...), Ctx: ctx})
	if h.w.mode != "short" {
		s = client.DoMultiStream(ctx, multi...)
	}
	if h.w.mode != "pass" {
		s = rueidishook.NewErrorResultStream(fmt.Errorf("%s", h.w.tag("hook-mstream")))
	}
	e.Stream = s
	return s
}

var _ rueidishook.Hook = (*c43Hook)(nil)

// ---- command construction -----------------------------------------------------------------------

func c43Completed(b rueidis.Builder, a []string) rueidis.Completed {
	x := b.Arbitrary(a[0])
	if len(a) > 1 {
		x = x.Keys(a[1])
	}
	if len(a) > 2 {
		x = x.Args(a[2:]...)
	}
	return x.Build()
}

func c43Cacheable(b rueidis.Builder, a []string) rueidis.Cacheable {
	switch a[0] {
	case "GET":
		return b.Get().Key(a[1]).Cache()
	case "HGET":
		return b.Hget().Key(a[1]).Field(a[2]).Cache()
	default:
		return b.Strlen().Key(a[1]).Cache()
	}
}

func c43Subscribe(b rueidis.Builder, a []string) rueidis.Completed {
	switch a[0] {
	case "PSUBSCRIBE":
		return b.Psubscribe().Pattern(a[1:]...).Build()
	case "SSUBSCRIBE":
		return b.Ssubscribe().Channel(a[1:]...).Build()
	default:
		return b.Subscribe().Channel(a[1:]...).Build()
	}
}

// ---- generator ----------------------------------------------------------------------------------

func c43Str(rt *rapid.T, label string) string {
	return rapid.OneOf(
		rapid.SampledFrom([]string{"", "k", "key:{1}", "a b", "\x00\xff\r\n", "*", "0", "-1"}),
		rapid.StringN(0, 6, -1),
	).Draw(rt, label)
}

func c43GenCompleted(rt *rapid.T) []string {
	name := rapid.SampledFrom([]string{"GET", "SET", "DEL", "INCR", "XADD", "PING", "EVAL", "custom.cmd"}).Draw(rt, "cmd")
	n := rapid.IntRange(0, 4).Draw(rt, "nargs")
	a := []string{name}
	for i := 0; i < n; i++ {
		a = append(a, c43Str(rt, "arg"))
	}
	return a
}

func c43GenCacheable(rt *rapid.T) []string {
	switch rapid.IntRange(0, 2).Draw(rt, "ckind") {
	case 0:
		return []string{"GET", c43Str(rt, "key")}
	case 1:
		return []string{"HGET", c43Str(rt, "key"), c43Str(rt, "field")}
	}
	return []string{"STRLEN", c43Str(rt, "key")}
}

func c43GenSubscribe(rt *rapid.T) []string {
	a := []string{rapid.SampledFrom([]string{"SUBSCRIBE", "PSUBSCRIBE", "SSUBSCRIBE"}).Draw(rt, "sub")}
	n := rapid.IntRange(1, 3).Draw(rt, "nch")
	for i := 0; i < n; i++ {
		a = append(a, c43Str(rt, "ch"))
	}
	return a
}

func c43GenCall(rt *rapid.T, dedicated bool) c43Call {
	var methods []string
	if dedicated {
		methods = []string{"Do", "Do", "DoMulti", "DoMulti", "Receive", "Receive", "SetPubSubHooks", "SetOnInvalidations", "B", "Close"}
	} else {
		methods = []string{"Do", "DoMulti", "DoCache", "DoMultiCache", "Receive", "DoStream", "DoMultiStream", "Do", "DoMulti", "DoCache", "DoMultiCache", "Receive", "DoStream", "DoMultiStream", "B", "Mode", "Close"}
	}
	c := c43Call{Method: rapid.SampledFrom(methods).Draw(rt, "method")}
	if !c43Hooked[c.Method] {
		return c
	}
	c.Hook = rapid.SampledFrom([]string{"pass", "pass", "replace", "replace", "short"}).Draw(rt, "hook")
	ttl := func() int64 {
		return rapid.SampledFrom([]int64{0, 1, 1500, 60000, -1, 3600000}).Draw(rt, "ttl")
	}
	switch c.Method {
	case "Do", "DoStream":
		c.Cmds = [][]string{c43GenCompleted(rt)}
	case "DoMulti", "DoMultiStream":
		n := rapid.IntRange(0, 4).Draw(rt, "n")
		for i := 0; i < n; i++ {
			c.Cmds = append(c.Cmds, c43GenCompleted(rt))
		}
	case "DoCache":
		c.Cmds = [][]string{c43GenCacheable(rt)}
		c.TTLms = []int64{ttl()}
	case "DoMultiCache":
		n := rapid.IntRange(0, 4).Draw(rt, "n")
		for i := 0; i < n; i++ {
			c.Cmds = append(c.Cmds, c43GenCacheable(rt))
			c.TTLms = append(c.TTLms, ttl())
		}
	case "Receive":
		c.Cmds = [][]string{c43GenSubscribe(rt)}
	}
	return c
}

func genC43Prog(rt *rapid.T) c43Prog {
	p := c43Prog{Fanout: []int{rapid.IntRange(1, 3).Draw(rt, "fan0"), rapid.IntRange(0, 3).Draw(rt, "fan1"), rapid.IntRange(0, 2).Draw(rt, "fan2")}}
	p.Stack = rapid.IntRange(0, 2).Draw(rt, "stack") == 0
	want := rapid.IntRange(1, 30).Draw(rt, "calls")
	hooked := 0
	for hooked < want {
		st := c43Step{Path: []int{}, Via: rapid.SampledFrom([]string{"client", "client", "client", "dedicated", "dedicate"}).Draw(rt, "via")}
		depth := rapid.IntRange(0, 3).Draw(rt, "depth")
		for d := 0; d < depth && d < len(p.Fanout) && p.Fanout[d] > 0; d++ {
			st.Path = append(st.Path, rapid.IntRange(0, p.Fanout[d]-1).Draw(rt, "node"))
		}
		n := 1
		if st.Via != "client" {
			n = rapid.IntRange(1, 4).Draw(rt, "ncalls")
		}
		for i := 0; i < n; i++ {
			c := c43GenCall(rt, st.Via != "client")
			if c43Hooked[c.Method] {
				if hooked >= want {
					continue
				}
				hooked++
			}
			st.Calls = append(st.Calls, c)
		}
		if len(st.Calls) > 0 {
			p.Steps = append(p.Steps, st)
		}
	}
	return p
}

// ---- execution ----------------------------------------------------------------------------------

type c43Obs struct {
	Step, Call int
	Receiver   string // name of the inner client that must be reached
	Events     []*c43Event
	Ctx        context.Context
	Cmds       []rueidis.Completed
	CCmds      []rueidis.Cacheable
	TTLs       []time.Duration
	GotRes     []rueidis.RedisResult
	GotErr     error
	GotStream  rueidis.RedisResultStream
	GotMsgs    []string
	Mode       rueidis.ClientMode
	Outer      int // how often the outer (second) hook layer was invoked during the call
}

type c43CtxKey struct{}

func c43SortedNodes(m map[string]rueidis.Client) []rueidis.Client {
	keys := make([]string, 0, len(m))
	for k := range m {
		keys = append(keys, k)
	}
	// addresses differ in the last number only (0..2)
	for i := range keys {
		for j := i + 1; j < len(keys); j++ {
			if keys[j] < keys[i] {
				keys[i], keys[j] = keys[j], keys[i]
			}
		}
	}
	out := make([]rueidis.Client, len(keys))
	for i, k := range keys {
		out[i] = m[k]
	}
	return out
}

func c43Exec(p c43Prog) (obs []*c43Obs, w *c43World, outside int, panicked any) {
	w = &c43World{fanout: p.Fanout, mode: "pass"}
	root := &c43Inner{c43Core{w: w, name: "root"}, 0}
	wrapped := rueidishook.WithHook(root, &c43Hook{w: w})
	if p.Stack {
		// hooks are composable: wrapping an already hooked client adds a layer that must see every call as well
		wrapped = rueidishook.WithHook(wrapped, &c43Outer{w: w})
	}
	defer func() {
		if r := recover(); r != nil {
			panicked = r
		}
	}()
	idx := 0
	inCalls := 0
	one := func(si, ci int, recvName string, cl rueidis.CoreClient, full rueidis.Client, ded rueidis.DedicatedClient, call c43Call) {
		o := &c43Obs{Step: si, Call: ci, Receiver: recvName}
		idx++
		o.Ctx = context.WithValue(context.Background(), c43CtxKey{}, idx)
		w.mode = call.Hook
		n0 := len(w.events)
		outer0 := w.outer
		b := cl.B()
		fn := func(m rueidis.PubSubMessage) { o.GotMsgs = append(o.GotMsgs, m.Message) }
		switch call.Method {
		case "Do":
			o.Cmds = []rueidis.Completed{c43Completed(b, call.Cmds[0])}
			o.GotRes = []rueidis.RedisResult{cl.Do(o.Ctx, o.Cmds[0])}
		case "DoMulti":
			for _, a := range call.Cmds {
				o.Cmds = append(o.Cmds, c43Completed(b, a))
			}
			o.GotRes = cl.DoMulti(o.Ctx, o.Cmds...)
		case "DoCache":
			o.CCmds = []rueidis.Cacheable{c43Cacheable(b, call.Cmds[0])}
			o.TTLs = []time.Duration{time.Duration(call.TTLms[0]) * time.Millisecond}
			o.GotRes = []rueidis.RedisResult{full.DoCache(o.Ctx, o.CCmds[0], o.TTLs[0])}
		case "DoMultiCache":
			var cts []rueidis.CacheableTTL
			for i, a := range call.Cmds {
				cc := c43Cacheable(b, a)
				ttl := time.Duration(call.TTLms[i]) * time.Millisecond
				o.CCmds = append(o.CCmds, cc)
				o.TTLs = append(o.TTLs, ttl)
				cts = append(cts, rueidis.CT(cc, ttl))
			}
			o.GotRes = full.DoMultiCache(o.Ctx, cts...)
		case "Receive":
			o.Cmds = []rueidis.Completed{c43Subscribe(b, call.Cmds[0])}
			o.GotErr = cl.Receive(o.Ctx, o.Cmds[0], fn)
		case "DoStream":
			o.Cmds = []rueidis.Completed{c43Completed(b, call.Cmds[0])}
			o.GotStream = full.DoStream(o.Ctx, o.Cmds[0])
		case "DoMultiStream":
			for _, a := range call.Cmds {
				o.Cmds = append(o.Cmds, c43Completed(b, a))
			}
			o.GotStream = full.DoMultiStream(o.Ctx, o.Cmds...)
		case "B":
			_ = b.Get().Key("x").Build()
		case "Mode":
			o.Mode = full.Mode()
		case "Close":
			cl.Close()
		case "SetPubSubHooks":
			_ = ded.SetPubSubHooks(rueidis.PubSubHooks{OnMessage: fn})
		case "SetOnInvalidations":
			_ = ded.SetOnInvalidations(func([]rueidis.RedisMessage) {})
		}
		o.Events = append([]*c43Event{}, w.events[n0:]...)
		o.Outer = w.outer - outer0
		inCalls += len(o.Events)
		w.mode = "pass"
		obs = append(obs, o)
	}
	for si, st := range p.Steps {
		cl := wrapped
		name := "root"
		for _, i := range st.Path {
			cl = c43SortedNodes(cl.Nodes())[i]
			name = fmt.Sprintf("%s/%d", name, i)
		}
		switch st.Via {
		case "client":
			for ci, call := range st.Calls {
				one(si, ci, name, cl, cl, nil, call)
			}
		case "dedicated":
			sentinel := fmt.Errorf("fn-result")
			err := cl.Dedicated(func(dc rueidis.DedicatedClient) error {
				for ci, call := range st.Calls {
					one(si, ci, name+"!dedicated", dc, nil, dc, call)
				}
				return sentinel
			})
			_ = err
		case "dedicate":
			dc, cancel := cl.Dedicate()
			for ci, call := range st.Calls {
				one(si, ci, name+"!dedicate", dc, nil, dc, call)
			}
			cancel()
		}
	}
	outside = len(w.events) - inCalls
	return
}

// ---- oracle -------------------------------------------------------------------------------------

func c43SameArgs(e *c43Event, o *c43Obs, call c43Call) string {
	if e.Method != call.Method {
		return fmt.Sprintf("method %s, want %s", e.Method, call.Method)
	}
	want := call.Cmds
	if want == nil {
		want = [][]string{}
	}
	got := e.Argv
	if got == nil {
		got = [][]string{}
	}
	if !reflect.DeepEqual(got, want) {
		return fmt.Sprintf("argv %q, want %q", got, want)
	}
	if len(e.Cmds) != len(o.Cmds) || len(e.CCmds) != len(o.CCmds) {
		return "number of commands differs"
	}
	for i := range e.Cmds {
		if e.Cmds[i] != o.Cmds[i] {
			return fmt.Sprintf("command %d is not the command value the caller passed", i)
		}
	}
	for i := range e.CCmds {
		if e.CCmds[i] != o.CCmds[i] {
			return fmt.Sprintf("cacheable command %d is not the command value the caller passed", i)
		}
	}
	if len(e.TTLs) != len(o.TTLs) {
		return fmt.Sprintf("%d ttls, want %d", len(e.TTLs), len(o.TTLs))
	}
	for i := range e.TTLs {
		if e.TTLs[i] != o.TTLs[i] {
			return fmt.Sprintf("ttl %d is %v, want %v", i, e.TTLs[i], o.TTLs[i])
		}
	}
	if e.Ctx != o.Ctx {
		return "context is not the caller's context"
	}
	return ""
}

func c43ResultsEqual(a, b []rueidis.RedisResult) bool {
	if len(a) != len(b) {
		return false
	}
	for i := range a {
		if a[i] != b[i] {
			return false
		}
	}
	return true
}

func c43Tags(rs []rueidis.RedisResult) []string {
	out := make([]string, len(rs))
	for i, r := range rs {
		s, err := r.ToString()
		if err != nil {
			s = "error:" + err.Error()
		}
		out[i] = s
	}
	return out
}

func c43Check(c *stat.Collector, rt stat.Fataler, p c43Prog, obs []*c43Obs, outside int, panicked any) (nt bool, classes []string) {
	if panicked != nil {
		c.Fail(rt, "C43.no-panic", fmt.Sprintf("program panicked: %v", panicked), p)
	}
	seen := map[string]bool{}
	for _, o := range obs {
		st := p.Steps[o.Step]
		call := st.Calls[o.Call]
		where := fmt.Sprintf("step %d call %d (%s on %s)", o.Step, o.Call, call.Method, o.Receiver)
		var hooks, inners []*c43Event
		for _, e := range o.Events {
			if e.Layer == "hook" {
				hooks = append(hooks, e)
			} else {
				inners = append(inners, e)
			}
		}
		if !c43Hooked[call.Method] {
			if len(hooks) != 0 {
				c.Fail(rt, "C43.unhooked-method", fmt.Sprintf("%s invoked the hook %d times", where, len(hooks)), p)
			}
			continue
		}
		kind := "root"
		if st.Via != "client" {
			kind = st.Via
			if len(st.Path) > 0 {
				kind += "-of-node"
			}
		} else if len(st.Path) > 0 {
			kind = fmt.Sprintf("node-depth%d", len(st.Path))
		}
		for _, cl := range []string{call.Method + "@" + kind, "hook-" + call.Hook} {
			if !seen[cl] {
				seen[cl] = true
				classes = append(classes, cl)
			}
		}
		if kind != "root" {
			nt = true
		}
		if p.Stack && o.Outer != 1 {
			c.Fail(rt, "C43.outer-hook-exactly-once", fmt.Sprintf("%s went through the outer hook of a doubly wrapped client %d times", where, o.Outer), p)
		}
		if len(hooks) != 1 {
			c.Fail(rt, "C43.hook-exactly-once", fmt.Sprintf("%s went through the hook %d times (inner client reached %d times)", where, len(hooks), len(inners)), p)
		}
		if o.Events[0].Layer != "hook" {
			c.Fail(rt, "C43.hook-first", fmt.Sprintf("%s reached the inner client before the hook", where), p)
		}
		h := hooks[0]
		if d := c43SameArgs(h, o, call); d != "" {
			c.Fail(rt, "C43.hook-arguments", fmt.Sprintf("%s: the hook saw %s", where, d), p)
		}
		wantInner := 1
		if call.Hook == "short" {
			wantInner = 0
		}
		if len(inners) != wantInner {
			c.Fail(rt, "C43.inner-once", fmt.Sprintf("%s: the hook called next %d time(s) but the inner client was reached %d times", where, wantInner, len(inners)), p)
		}
		var in *c43Event
		if wantInner == 1 {
			in = inners[0]
			if in.Target != o.Receiver {
				c.Fail(rt, "C43.next-is-receiver", fmt.Sprintf("%s: calling next reached inner client %s", where, in.Target), p)
			}
			if d := c43SameArgs(in, o, call); d != "" {
				c.Fail(rt, "C43.next-arguments", fmt.Sprintf("%s: the inner client saw %s", where, d), p)
			}
		}
		// the caller gets exactly what the hook returned
		switch call.Method {
		case "Do", "DoMulti", "DoCache", "DoMultiCache":
			if !c43ResultsEqual(o.GotRes, h.Res) {
				c.Fail(rt, "C43.result-unchanged", fmt.Sprintf("%s: caller got %q, the hook returned %q", where, c43Tags(o.GotRes), c43Tags(h.Res)), p)
			}
			if call.Hook == "pass" && !c43ResultsEqual(h.Res, in.Res) {
				c.Fail(rt, "C43.next-result", fmt.Sprintf("%s: next returned %q to the hook, the inner client returned %q", where, c43Tags(h.Res), c43Tags(in.Res)), p)
			}
		case "Receive":
			if o.GotErr != h.Err {
				c.Fail(rt, "C43.result-unchanged", fmt.Sprintf("%s: caller got error %v, the hook returned %v", where, o.GotErr, h.Err), p)
			}
			if call.Hook == "pass" && h.Err != in.Err {
				c.Fail(rt, "C43.next-result", fmt.Sprintf("%s: next returned %v to the hook, the inner client returned %v", where, h.Err, in.Err), p)
			}
			var wantMsgs []string
			if in != nil {
				wantMsgs = []string{in.Msg}
			}
			if !reflect.DeepEqual(o.GotMsgs, wantMsgs) {
				c.Fail(rt, "C43.receive-callback", fmt.Sprintf("%s: the caller's callback received %q, the inner client delivered %q", where, o.GotMsgs, wantMsgs), p)
			}
		case "DoStream", "DoMultiStream":
			if o.GotStream != h.Stream {
				c.Fail(rt, "C43.result-unchanged", fmt.Sprintf("%s: caller got stream with error %v, the hook returned %v", where, o.GotStream.Error(), h.Stream.Error()), p)
			}
			if call.Hook == "pass" && h.Stream != in.Stream {
				c.Fail(rt, "C43.next-result", fmt.Sprintf("%s: next returned stream %v to the hook, the inner client returned %v", where, h.Stream.Error(), in.Stream.Error()), p)
			}
		}
	}
	if outside != 0 {
		c.Fail(rt, "C43.no-spurious-events", fmt.Sprintf("%d hook/inner events were recorded outside of any call (while obtaining Nodes/Dedicated/Dedicate clients)", outside), p)
	}
	return nt, classes
}

func TestVerif_C43_Hooks(t *testing.T) {
	c := stat.For("C43", "hooks").Rule("no server: rueidishook.WithHook around a hand-written recording rueidis.Client (Nodes() gives 1-3 recording clients per level, 3 levels; Dedicated/Dedicate give recording dedicated clients); programs of 1-30 hooked calls, each on a generated receiver {wrapped client, client from Nodes() up to depth 3, dedicated client from Dedicated(fn) or Dedicate() of any of those} with one of Do/DoMulti/DoCache/DoMultiCache/Receive/DoStream/DoMultiStream (dedicated: Do/DoMulti/Receive) and generated commands (0-4 per batch, empty/binary args), ttls, a unique context; the hook either passes next's result, replaces it with a unique value, or short-circuits; unhooked methods (B, Mode, Close, SetPubSubHooks, SetOnInvalidations) interleaved; oracle: per call exactly one hook event, first, with the caller's method, command values, argv, ttls, context and callback; next reaches the receiver's inner client exactly as often as the hook called it with the same arguments; the caller receives exactly (==) the value the hook returned; no hook/inner event outside a call; no panic; non-trivial = at least one hooked call on a derived client (Nodes / Dedicated / Dedicate)")
	defer c.Flush()
	rapid.Check(t, func(rt *rapid.T) {
		p := genC43Prog(rt)
		obs, _, outside, panicked := c43Exec(p)
		nt, classes := c43Check(c, rt, p, obs, outside, panicked)
		key, _ := json.Marshal(p)
		c.Eval(nt, string(key), classes...)
		c.Sample(nt, func() any { return json.RawMessage(strings.ToValidUTF8(string(key), "?")) })
	})
}
