package props

// C47 "Connection setup applies the configured session settings": for a generated option vector and
// server personality the client is created in a bubble, issues one command through each kind of
// connection (pipelining, blocking pool, dedicated, stream pool) and the fake's session state of
// every connection is captured right before its first user command. The setup commands seen in the
// fault-free run are then enumerated exhaustively: the same vector is run once per setup step with
// exactly that step answered by an error on every new connection.

import (
	"bytes"
	"context"
	"encoding/json"
	"errors"
	"fmt"
	"os"
	"reflect"
	"sort"
	"strings"
	"sync"
	"testing"
	"time"

	"github.com/redis/rueidis"
	"pgregory.net/rapid"
	"verif/harness/sim"
	"verifkit/bubble"
	"verifkit/fakeredis"
	"verifkit/resp"
	"verifkit/stat"
)

type c47Vec struct {
	Server       string   `json:"server"` // resp3 | nohello | proto2
	Auth         string   `json:"auth"`   // "" | userpass | passonly | credfn | credfn-passonly
	ClientName   string   `json:"client_name,omitempty"`
	SelectDB     int      `json:"select_db,omitempty"`
	Tracking     []string `json:"tracking"` // nil = default
	DisableCache bool     `json:"disable_cache,omitempty"`
	AlwaysRESP2  bool     `json:"always_resp2,omitempty"`
	NoTouch      bool     `json:"no_touch,omitempty"`
	NoEvict      bool     `json:"no_evict,omitempty"`
	SetInfo      string   `json:"set_info"`               // default | custom | disabled
	Redirect     bool     `json:"redirect,omitempty"`     // Standalone.EnableRedirect (standalone client, CLIENT CAPA redirect)
	ReplicaOnly  bool     `json:"replica_only,omitempty"` // READONLY; only together with Redirect (a single client rejects it)
}

type c47Call struct {
	Name string
	Err  error
	OK   bool // the call returned exactly its own reply
}

type c47Run struct {
	Res     bubble.Result
	NewErr  error
	HasCli  bool
	Calls   []c47Call
	Events  []fakeredis.Event
	Snaps   map[int]fakeredis.ConnState // connection -> state found by its first user command
	CredFor map[int][2]string           // connection -> credentials AuthCredentialsFn returned for it
	CloseOK bool
}

// error texts a failing setup step is answered with; "unknown" stands for Redis' unknown-command text naming the step's command
var c47FailTexts = []string{
	"ERR c47 injected setup failure",
	"NOPERM this user has no permissions to run the command",
	"LOADING Redis is loading the dataset in memory",
	"NOPROTO unsupported protocol version",
	"WRONGPASS invalid username-password pair or user is disabled.",
	"unknown",
}

func c47FailText(kind string, cmd []string) string {
	if kind == "unknown" {
		return fmt.Sprintf("ERR unknown command '%s', with args beginning with: ", cmd[0])
	}
	return kind
}

func c47UserCmd(argv []string) bool { return len(argv) > 1 && argv[0] == "VREPLY" }

func c47Reply(name string) resp.Value { return resp.Bulk("reply-of-" + name) }

func c47RunOne(t *testing.T, v c47Vec, failStep int, failText string) (run c47Run) {
	var mu sync.Mutex
	run.Snaps = map[int]fakeredis.ConnState{}
	run.CredFor = map[int][2]string{}
	run.Res = bubble.Run(t, func() {
		w := fakeredis.NewWorld()
		srv := w.NewServer("127.0.0.1:6379")
		switch v.Server {
		case "nohello":
			srv.NoHello = true
		case "proto2":
			srv.Proto2 = true
		}
		switch v.Auth {
		case "userpass":
			srv.Users = map[string]string{"alice": "pw-alice"}
		case "passonly", "credfn-passonly":
			srv.Users = map[string]string{"default": "pw-default"}
		case "credfn":
			srv.Users = map[string]string{"dyn0": "pw-dyn0", "dyn1": "pw-dyn1"}
		}
		srv.Hooks.Fault = func(c *fakeredis.Conn, req int, argv []string) fakeredis.Fault {
			if c47UserCmd(argv) {
				st := c.Snapshot()
				mu.Lock()
				if _, ok := run.Snaps[c.ID]; !ok {
					run.Snaps[c.ID] = st
				}
				mu.Unlock()
			}
			if failStep >= 0 && req == failStep {
				return fakeredis.Fault{Kind: fakeredis.ErrorReply, Err: failText}
			}
			return fakeredis.Fault{}
		}
		opt := sim.Option(w, "127.0.0.1:6379")
		tracker := &c29Tracker{w: w, srv: srv, CloseUs: map[int]int64{}}
		opt.DialCtxFn = tracker.dial
		opt.DisableRetry = true
		opt.PipelineMultiplex = -1
		opt.BlockingPoolSize = 1
		switch v.Auth {
		case "userpass":
			opt.Username, opt.Password = "alice", "pw-alice"
		case "passonly":
			opt.Password = "pw-default"
		case "credfn", "credfn-passonly":
			opt.AuthCredentialsFn = func(rueidis.AuthCredentialsContext) (rueidis.AuthCredentials, error) {
				tracker.mu.Lock()
				id := tracker.LastID
				tracker.mu.Unlock()
				cred := rueidis.AuthCredentials{Password: "pw-default"}
				if v.Auth == "credfn" {
					cred = rueidis.AuthCredentials{Username: fmt.Sprintf("dyn%d", id%2), Password: fmt.Sprintf("pw-dyn%d", id%2)}
				}
				mu.Lock()
				run.CredFor[id] = [2]string{cred.Username, cred.Password}
				mu.Unlock()
				return cred, nil
			}
		}
		opt.ClientName = v.ClientName
		opt.SelectDB = v.SelectDB
		opt.ClientTrackingOptions = v.Tracking
		opt.DisableCache = v.DisableCache
		opt.AlwaysRESP2 = v.AlwaysRESP2
		opt.ClientNoTouch = v.NoTouch
		opt.ClientNoEvict = v.NoEvict
		switch v.SetInfo {
		case "custom":
			opt.ClientSetInfo = []string{"c47-lib", "4.7.0"}
		case "disabled":
			opt.ClientSetInfo = rueidis.DisableClientSetInfo
		}
		if v.Redirect {
			opt.Standalone.EnableRedirect = true
			opt.ReplicaOnly = v.ReplicaOnly
		} else {
			opt.ForceSingleClient = true
		}
		client, err := rueidis.NewClient(opt)
		run.NewErr = err
		if client != nil && !reflect.ValueOf(client).IsNil() {
			run.HasCli = true
			ctx := context.Background()
			mk := func(name string, block bool) rueidis.Completed {
				a := client.B().Arbitrary("VREPLY").Args("u-"+name, string(resp.AppendV2(nil, c47Reply(name))))
				if block {
					return a.Blocking()
				}
				return a.Build()
			}
			record := func(name string, r rueidis.RedisResult) {
				call := c47Call{Name: name, Err: r.Error()}
				call.OK = sim.MatchResult(r, c47Reply(name)) == nil
				run.Calls = append(run.Calls, call)
			}
			record("pipe", client.Do(ctx, mk("pipe", false)))
			record("block", client.Do(ctx, mk("block", true)))
			var dr rueidis.RedisResult
			_ = client.Dedicated(func(dc rueidis.DedicatedClient) error {
				dr = dc.Do(ctx, dc.B().Arbitrary("VREPLY").Args("u-dedicated", string(resp.AppendV2(nil, c47Reply("dedicated")))).Build())
				return nil
			})
			record("dedicated", dr)
			s := client.DoStream(ctx, mk("stream", false))
			var buf bytes.Buffer
			var serr error
			for s.HasNext() {
				if _, serr = s.WriteTo(&buf); serr != nil {
					break
				}
			}
			if serr == nil && buf.Len() == 0 {
				serr = s.Error()
			}
			run.Calls = append(run.Calls, c47Call{Name: "stream", Err: serr, OK: serr == nil && buf.String() == c47Reply("stream").S})
			run.CloseOK = sim.CallTimeout(time.Minute, client.Close)
		} else {
			run.CloseOK = true
		}
		w.Stop()
		run.Events = w.Snapshot()
		time.Sleep(5 * time.Second)
	})
	return
}

// c47Setup returns the commands connection id received before its first user command (without the
// PING a closing connection sends).
func c47Setup(events []fakeredis.Event, id int) (out [][]string) {
	for _, e := range events {
		if e.Kind != "recv" || e.Conn != id {
			continue
		}
		if c47UserCmd(e.Argv) {
			break
		}
		switch strings.ToUpper(e.Argv[0]) {
		case "PING", "UNSUBSCRIBE", "PUNSUBSCRIBE", "SUNSUBSCRIBE", "DISCARD":
			continue
		}
		out = append(out, e.Argv)
	}
	return
}

func genC47Vec(rt *rapid.T) c47Vec {
	v := c47Vec{
		Server:     rapid.SampledFrom([]string{"resp3", "resp3", "resp3", "nohello", "proto2"}).Draw(rt, "server"),
		Auth:       rapid.SampledFrom([]string{"", "", "userpass", "passonly", "credfn", "credfn-passonly"}).Draw(rt, "auth"),
		ClientName: rapid.SampledFrom([]string{"", "c47-client", "c47-other"}).Draw(rt, "clientName"),
		SelectDB:   rapid.IntRange(0, 3).Draw(rt, "selectDB"),
		NoTouch:    rapid.Bool().Draw(rt, "noTouch"),
		NoEvict:    rapid.Bool().Draw(rt, "noEvict"),
		SetInfo:    rapid.SampledFrom([]string{"default", "default", "custom", "disabled"}).Draw(rt, "setInfo"),
		Redirect:   rapid.IntRange(0, 3).Draw(rt, "redirect") == 0,
	}
	if v.Redirect {
		v.ReplicaOnly = rapid.Bool().Draw(rt, "replicaOnly")
	}
	v.AlwaysRESP2 = rapid.IntRange(0, 4).Draw(rt, "alwaysRESP2") == 0
	if v.Server != "resp3" || v.AlwaysRESP2 {
		// RESP2 needs DisableCache; without it NewClient must fail with ErrNoCache (kept as a rare case)
		v.DisableCache = rapid.IntRange(0, 5).Draw(rt, "disableCacheR2") != 0
	} else {
		v.DisableCache = rapid.IntRange(0, 3).Draw(rt, "disableCache") == 0
	}
	if !v.DisableCache {
		v.Tracking = rapid.SampledFrom([][]string{nil, nil, {"OPTIN"}, {"OPTOUT"}, {"BCAST", "PREFIX", "a:", "PREFIX", "b:"}, {"OPTIN", "NOLOOP"}, {"BCAST", "NOLOOP"}, {"BCAST", "PREFIX", "p:", "NOLOOP"}}).Draw(rt, "tracking")
	}
	return v
}

func (v c47Vec) optionsSet() int {
	n := 0
	for _, b := range []bool{v.Auth != "", v.ClientName != "", v.SelectDB != 0, v.Tracking != nil, v.DisableCache, v.AlwaysRESP2, v.NoTouch, v.NoEvict, v.SetInfo != "default", v.Redirect, v.ReplicaOnly} {
		if b {
			n++
		}
	}
	return n
}

// expectNoCache: the configuration cannot work (RESP2 without DisableCache).
func (v c47Vec) expectNoCache() bool {
	return !v.DisableCache && (v.Server != "resp3" || v.AlwaysRESP2)
}

type c47Case struct {
	Vec      c47Vec   `json:"vec"`
	FailStep int      `json:"fail_step"`
	FailCmd  []string `json:"fail_cmd,omitempty"`
	FailText string   `json:"fail_text,omitempty"` // the error reply the step gets
}

// c47CheckState compares the session state a connection had when it served its first user command with the configuration.
func c47CheckState(v c47Vec, st fakeredis.ConnState, cred [2]string, hasCred bool, failed []string) (diffs []string) {
	failedIs := func(words ...string) bool {
		if len(failed) < len(words) {
			return false
		}
		for i, w := range words {
			if !strings.EqualFold(failed[i], w) {
				return false
			}
		}
		return true
	}
	d := func(format string, a ...any) { diffs = append(diffs, fmt.Sprintf(format, a...)) }
	wantUser := "default"
	switch v.Auth {
	case "userpass":
		wantUser = "alice"
	case "credfn":
		if hasCred {
			wantUser = cred[0]
		} else {
			wantUser = "?"
		}
	}
	if !st.Authed {
		d("not authenticated")
	}
	if v.Auth != "" && st.User != wantUser {
		d("authenticated as %q, want %q", st.User, wantUser)
	}
	if st.Name != v.ClientName {
		d("client name %q, want %q", st.Name, v.ClientName)
	}
	if st.DB != v.SelectDB {
		d("database %d, want %d", st.DB, v.SelectDB)
	}
	if st.NoTouch != v.NoTouch {
		d("NO-TOUCH %v, want %v", st.NoTouch, v.NoTouch)
	}
	if st.NoEvict != v.NoEvict {
		d("NO-EVICT %v, want %v", st.NoEvict, v.NoEvict)
	}
	hasCapa := false
	for _, c := range st.Capa {
		if strings.EqualFold(c, "redirect") {
			hasCapa = true
		}
	}
	if hasCapa != v.Redirect {
		d("CAPA redirect %v, want %v", hasCapa, v.Redirect)
	}
	// tolerated: READONLY
	if st.ReadOnly != v.ReplicaOnly && !(v.ReplicaOnly && failedIs("READONLY")) {
		d("READONLY %v, want %v", st.ReadOnly, v.ReplicaOnly)
	}
	// tolerated: CLIENT SETINFO
	wantLib, wantVer := rueidis.LibName, rueidis.LibVer
	switch v.SetInfo {
	case "custom":
		wantLib, wantVer = "c47-lib", "4.7.0"
	case "disabled":
		wantLib, wantVer = "", ""
	}
	if st.LibName != wantLib && !failedIs("CLIENT", "SETINFO", "LIB-NAME") {
		d("lib name %q, want %q", st.LibName, wantLib)
	}
	if st.LibVer != wantVer && !failedIs("CLIENT", "SETINFO", "LIB-VER") {
		d("lib version %q, want %q", st.LibVer, wantVer)
	}
	// tracking
	if v.DisableCache {
		if st.Tracking {
			d("CLIENT TRACKING is on with DisableCache")
		}
	} else {
		mode, noloop := "optin", false
		var prefixes []string
		for i := 0; i < len(v.Tracking); i++ {
			switch strings.ToUpper(v.Tracking[i]) {
			case "OPTIN":
				mode = "optin"
			case "OPTOUT":
				mode = "optout"
			case "BCAST":
				mode = "bcast"
			case "NOLOOP":
				noloop = true
			case "PREFIX":
				i++
				prefixes = append(prefixes, v.Tracking[i])
			}
		}
		got := append([]string(nil), st.TrackPrefixes...)
		sort.Strings(got)
		sort.Strings(prefixes)
		if !st.Tracking || st.TrackMode != mode || st.TrackNoLoop != noloop || !reflect.DeepEqual(got, prefixes) {
			d("tracking on=%v mode=%q noloop=%v prefixes=%v, want on mode=%q noloop=%v prefixes=%v", st.Tracking, st.TrackMode, st.TrackNoLoop, got, mode, noloop, prefixes)
		}
	}
	// protocol: RESP3 unless AlwaysRESP2 or the server does not give it
	wantProto := 3
	if v.AlwaysRESP2 || v.Server != "resp3" {
		wantProto = 2
	}
	if failedIs("HELLO") {
		wantProto = st.Proto // a rejected HELLO may end in a fallback or a failure: not judged here
	}
	if st.Proto != wantProto {
		d("protocol %d, want %d", st.Proto, wantProto)
	}
	return
}

func c47Check(c *stat.Collector, rt stat.Fataler, cs c47Case, run c47Run, setup [][]string) (classes []string) {
	v := cs.Vec
	fail := func(clause, detail string) { c.Fail(rt, clause, detail, cs) }
	if run.Res.Panic != nil {
		fail("C47.no-panic", run.Res.String())
	}
	if run.Res.Deadlock || run.Res.Leak {
		fail("C47.no-hang", run.Res.String())
	}
	if !run.CloseOK {
		fail("C47.close-returns", "Client.Close did not return within a virtual minute")
	}
	classes = append(classes, "server-"+v.Server)
	if v.Auth != "" {
		classes = append(classes, "auth-"+v.Auth)
	}
	if v.AlwaysRESP2 {
		classes = append(classes, "always-resp2")
	}
	if v.Redirect {
		classes = append(classes, "standalone-redirect")
	}
	if v.ReplicaOnly {
		classes = append(classes, "replica-only")
	}
	if v.Tracking != nil {
		classes = append(classes, "tracking-"+strings.ToLower(strings.Join(v.Tracking, "-")))
	}
	if v.DisableCache {
		classes = append(classes, "disable-cache")
	}
	userRecv := map[int][]string{}
	for _, e := range run.Events {
		if e.Kind == "recv" && c47UserCmd(e.Argv) {
			userRecv[e.Conn] = append(userRecv[e.Conn], e.Argv[1])
		}
	}
	// safety: whatever happened, a connection that served a user command was configured as asked
	for id, st := range run.Snaps {
		cred, hasCred := run.CredFor[id]
		if diffs := c47CheckState(v, st, cred, hasCred, cs.FailCmd); len(diffs) > 0 {
			fail("C47.session-state", fmt.Sprintf("connection c%d served user command(s) %v although its session is not the configured one: %s (setup commands it received: %q)", id, userRecv[id], strings.Join(diffs, "; "), c47Setup(run.Events, id)))
		}
	}
	allOK := run.NewErr == nil && run.HasCli
	for _, call := range run.Calls {
		if !call.OK {
			allOK = false
		}
	}
	describe := func() string {
		s := fmt.Sprintf("NewClient error: %v;", run.NewErr)
		for _, call := range run.Calls {
			s += fmt.Sprintf(" %s: ok=%v err=%v;", call.Name, call.OK, call.Err)
		}
		return s
	}
	if cs.FailStep < 0 {
		switch {
		case v.expectNoCache():
			classes = append(classes, "resp2-without-disable-cache")
			if !errors.Is(run.NewErr, rueidis.ErrNoCache) {
				fail("C47.resp2-needs-disable-cache", fmt.Sprintf("the server/option combination cannot give RESP3 and DisableCache is false: NewClient must fail with ErrNoCache; %s", describe()))
			}
			if len(userRecv) > 0 {
				fail("C47.resp2-needs-disable-cache", fmt.Sprintf("user commands were executed although the client could not be set up: %v", userRecv))
			}
		case v.Server == "nohello" && v.Auth != "" && (v.NoTouch || v.NoEvict || v.Redirect):
			// the RESP3 attempt sends CLIENT NO-TOUCH/NO-EVICT/CAPA before authentication is possible on a server
			// without HELLO; the client gives up on the NOAUTH reply. A failed connection is within the property.
			classes = append(classes, "nohello-auth-client-option")
			if allOK {
				classes = append(classes, "nohello-auth-client-option-works")
			}
		default:
			if !allOK {
				fail("C47.setup-succeeds", fmt.Sprintf("nothing failed, yet the client could not be set up or a call failed: %s (setup commands: %q)", describe(), setup))
			}
		}
		if len(run.Snaps) >= 3 {
			classes = append(classes, "three-connections-configured")
		}
		return
	}
	// one setup step answered with an error on every new connection
	failed := cs.FailCmd
	resent := false
	for _, a := range setup[cs.FailStep+1:] {
		if strings.Join(a, "\x00") == strings.Join(failed, "\x00") {
			resent = true
		}
	}
	up := strings.ToUpper(failed[0])
	classes = append(classes, "fail-text-"+strings.ToLower(strings.Fields(cs.FailText + " ?")[0]+map[bool]string{true: "-unknown-command"}[strings.Contains(cs.FailText, "unknown command")]))
	fatal := func() {
		if run.NewErr == nil {
			fail("C47.failed-step-fails-connection", fmt.Sprintf("step %d %q was answered %q but NewClient returned no error; %s", cs.FailStep, failed, cs.FailText, describe()))
		}
		for _, call := range run.Calls {
			if call.Err == nil || call.OK {
				fail("C47.failed-step-fails-connection", fmt.Sprintf("step %d %q is answered %q on every new connection, yet call %q succeeded; %s", cs.FailStep, failed, cs.FailText, call.Name, describe()))
			}
		}
		if len(userRecv) > 0 {
			fail("C47.failed-step-fails-connection", fmt.Sprintf("step %d %q was answered %q, yet user commands were executed: %v", cs.FailStep, failed, cs.FailText, userRecv))
		}
	}
	switch {
	case up == "READONLY" || (up == "CLIENT" && len(failed) > 1 && strings.EqualFold(failed[1], "SETINFO")):
		classes = append(classes, "failing-step-tolerated")
		if !allOK {
			fail("C47.tolerated-step", fmt.Sprintf("step %d %q failed, which must be tolerated, but the client did not work: %s", cs.FailStep, failed, describe()))
		}
	case up == "HELLO" && len(failed) > 1 && failed[1] == "2" && strings.Contains(cs.FailText, "unknown command"):
		// the HELLO 2 of the RESP2 setup batch on a server that does not know HELLO: tolerated like on the no-HELLO personality
		classes = append(classes, "failing-step-hello2-unknown-command")
		if !allOK {
			fail("C47.tolerated-step", fmt.Sprintf("step %d %q was answered %q (a server without HELLO), which the RESP2 setup tolerates, but the client did not work: %s", cs.FailStep, failed, cs.FailText, describe()))
		}
	case up == "HELLO" && len(failed) > 1 && failed[1] == "2":
		// HELLO 2 of the RESP2 setup batch rejected for another reason: a failed setup step, not the no-HELLO fallback
		classes = append(classes, "failing-step-hello2-fatal")
		fatal()
	case up == "HELLO":
		// the HELLO 3 probe: an unknown-command reply is the RESP2 fallback; for other texts fallback or failure are both accepted
		classes = append(classes, "failing-step-hello3-probe")
	case resent:
		classes = append(classes, "failing-step-resent-later")
	default:
		classes = append(classes, "failing-step-fatal")
		fatal()
	}
	return
}

func TestVerif_C47_Setup(t *testing.T) {
	c := stat.For("C47", "setup-"+queueLabel()).Rule("generated option vectors {credentials: none / user+password / password only / AuthCredentialsFn (rotating users, or password only), ClientName, SelectDB 0-3, ClientTrackingOptions nil|OPTIN|OPTOUT|BCAST+PREFIX|NOLOOP variants, DisableCache, AlwaysRESP2, ClientNoTouch, ClientNoEvict, ClientSetInfo default|two values|disabled, Standalone.EnableRedirect (+ReplicaOnly)} x server personality {RESP3, HELLO unknown, HELLO answers proto 2} in a bubble; one user command through the pipelining connection, the blocking pool, a dedicated client and the stream pool; the fake's session state is captured right before the first user command of each connection and compared with the configuration; then, exhaustively for the vector, one run per setup command seen in the fault-free run with that command answered by an error on every new connection: with a generated error text (ERR, NOPERM, LOADING, NOPROTO, WRONGPASS, or unknown command): READONLY / CLIENT SETINFO failures must be tolerated, a failure of the HELLO 3 probe may fall back or fail, the HELLO 2 of the RESP2 setup batch is tolerated only when rejected as an unknown command and is a failed step otherwise, a step that is sent again later may be tolerated, any other failure must fail NewClient and every call with no user command executed; non-trivial = at least 4 options set, or a failing step")
	defer c.Flush()
	c.Extra("exhaustive_dimension", "failing setup step: every setup command of the fault-free run of each generated vector")
	if p := os.Getenv("VERIF_REPLAY_JSON"); p != "" {
		var cs c47Case
		b, _ := os.ReadFile(p)
		if err := json.Unmarshal(b, &cs); err != nil {
			t.Fatal(err)
		}
		base := c47RunOne(t, cs.Vec, -1, "")
		setup := c47Setup(base.Events, 0)
		run := base
		if cs.FailStep >= 0 {
			run = c47RunOne(t, cs.Vec, cs.FailStep, cs.FailText)
		}
		for _, e := range run.Events {
			e.Argv = trunc(e.Argv)
			t.Log(e)
		}
		t.Logf("NewClient: %v; calls %+v; snaps %+v", run.NewErr, run.Calls, run.Snaps)
		c47Check(c, t, cs, run, setup)
		return
	}
	rapid.Check(t, func(rt *rapid.T) {
		v := genC47Vec(rt)
		cs := c47Case{Vec: v, FailStep: -1}
		saveCase("c47", cs)
		base := c47RunOne(t, v, -1, "")
		if base.Res.Frozen {
			c.Inconclusive("virtual-clock-freeze")
			return
		}
		setup := c47Setup(base.Events, 0)
		classes := c47Check(c, rt, cs, base, setup)
		key, _ := json.Marshal(cs)
		nt := v.optionsSet() >= 4
		c.Eval(nt, string(key), classes...)
		c.Sample(nt, func() any { return cs })
		if base.NewErr != nil {
			return // nothing to enumerate: the vector cannot be set up at all
		}
		for k := range setup {
			cs := c47Case{Vec: v, FailStep: k, FailCmd: setup[k], FailText: c47FailText(rapid.SampledFrom(c47FailTexts).Draw(rt, "failText"), setup[k])}
			saveCase("c47", cs)
			run := c47RunOne(t, v, k, cs.FailText)
			if run.Res.Frozen {
				c.Inconclusive("virtual-clock-freeze")
				continue
			}
			classes := c47Check(c, rt, cs, run, setup)
			key, _ := json.Marshal(cs)
			c.Eval(true, string(key), append(classes, "failing-step")...)
			c.Sample(true, func() any { return cs })
		}
		c.AddExtra("setup_steps_enumerated", int64(len(setup)))
		c.AddExtra("vectors_enumerated", 1)
	})
}
