package props

import (
	"encoding/json"
	"fmt"
	"os"
	"testing"
)

func TestDebug_FaultPlan(t *testing.T) {
	p := os.Getenv("VERIF_DEBUG_PLAN")
	if p == "" {
		t.Skip()
	}
	b, _ := os.ReadFile(p)
	var plan fPlan
	if err := json.Unmarshal(b, &plan); err != nil {
		t.Fatal(err)
	}
	run := fRunPlan(t, plan)
	fmt.Printf("closeAt=%d res=%s pending=%d %v\n", run.CloseAtUs, run.Res, run.Pending, run.PendingOps)
	for _, r := range run.Results {
		fmt.Printf("caller %d op %d start=%d end=%d afterClose=%d err=%v done=%v", r.Caller, r.Op, r.StartUs, r.EndUs, r.AfterCloseUs, r.Err, r.Done)
		for _, rr := range r.Results {
			fmt.Printf(" [%v]", rr.Error())
		}
		fmt.Println()
	}
	for _, e := range run.Events {
		fmt.Println(e.String())
	}
}
