package props

import (
	"encoding/json"
	"fmt"
	"os"
	"testing"
)

func TestDebug_FaultPlan(t *testing.T) {
	p := os.Getenv("VERIF_DEBUG_PLAN")
	if p == "" {
		t.Skip()
	}
	b, _ := os.ReadFile(p)
	var plan fPlan
	if err := json.Unmarshal(b, &plan); err != nil {
		t.Fatal(err)
	}
	run := fRunPlan(t, plan)
	fmt.Printf("closeAt=%d res=%s pending=%d %v\n", run.CloseAtUs, run.Res, run.Pending, run.PendingOps)
	for _, r := range run.Results {
		fmt.Printf("caller %d op %d start=%d end=%d afterClose=%d err=%v done=%v", r.Caller, r.Op, r.StartUs, r.EndUs, r.AfterCloseUs, r.Err, r.Done)
		for _, rr := range r.Results {
			fmt.Printf(" [%v]", rr.Error())
		}
		fmt.Println()
	}
	for _, e := range run.Events {
		fmt.Println(e.String())
	}
}

// TestDebug_CachePlan runs the cache plan stored in VERIF_DEBUG_CPLAN (single caller with VERIF_DEBUG_C07=1, as the
// end-to-end C07 unit does) and prints reads, writes and the server's event log (development aid).
func TestDebug_CachePlan(t *testing.T) {
	p := os.Getenv("VERIF_DEBUG_CPLAN")
	if p == "" {
		t.Skip()
	}
	b, _ := os.ReadFile(p)
	var plan cPlan
	if err := json.Unmarshal(b, &plan); err != nil {
		t.Fatal(err)
	}
	run := cacheRun(t, plan)
	fmt.Printf("res=%s pending=%d epoch=%d\n", run.Res, run.Pending, run.EpochMs)
	for _, r := range run.Reads {
		fmt.Printf("read caller %d op %d pos %d key %s [%d..%d]us err=%v nil=%v val=%s hit=%v pxat=+%d ttl=%d\n", r.Caller, r.Op, r.Pos, r.Key, r.StartUs, r.EndUs, r.Err, r.Nil, r.Val, r.Hit, r.PXAT-run.EpochMs, r.TTLMs)
	}
	for _, w := range run.Writes {
		fmt.Printf("write %+v\n", w)
	}
	for _, e := range run.Events {
		s := e.String()
		if len(s) > 260 {
			s = s[:260]
		}
		fmt.Println(s)
	}
}
