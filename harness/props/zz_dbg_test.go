package props

import (
	"encoding/json"
	"fmt"
	"os"
	"testing"

	"verifkit/stat"
)

func TestDebug_FaultPlan(t *testing.T) {
	p := os.Getenv("VERIF_DEBUG_PLAN")
	if p == "" {
		t.Skip()
	}
	b, _ := os.ReadFile(p)
	var plan fPlan
	if err := json.Unmarshal(b, &plan); err != nil {
		t.Fatal(err)
	}
	run := fRunPlan(t, plan)
	fmt.Printf("closeAt=%d res=%s pending=%d %v\n", run.CloseAtUs, run.Res, run.Pending, run.PendingOps)
	for _, r := range run.Results {
		fmt.Printf("caller %d op %d start=%d end=%d afterClose=%d err=%v done=%v", r.Caller, r.Op, r.StartUs, r.EndUs, r.AfterCloseUs, r.Err, r.Done)
		for _, rr := range r.Results {
			fmt.Printf(" [%v]", rr.Error())
		}
		fmt.Println()
	}
	for _, e := range run.Events {
		fmt.Println(e.String())
	}
}

// TestDebug_CachePlan runs the cache plan stored in VERIF_DEBUG_CPLAN (single caller with VERIF_DEBUG_C07=1, as the
// end-to-end C07 unit does) and prints reads, writes and the server's event log (development aid).
func TestDebug_CachePlan(t *testing.T) {
	p := os.Getenv("VERIF_DEBUG_CPLAN")
	if p == "" {
		t.Skip()
	}
	b, _ := os.ReadFile(p)
	var plan cPlan
	if err := json.Unmarshal(b, &plan); err != nil {
		t.Fatal(err)
	}
	run := cacheRun(t, plan)
	fmt.Printf("res=%s pending=%d epoch=%d\n", run.Res, run.Pending, run.EpochMs)
	for _, r := range run.Reads {
		fmt.Printf("read caller %d op %d pos %d key %s [%d..%d]us err=%v nil=%v val=%s hit=%v pxat=+%d ttl=%d\n", r.Caller, r.Op, r.Pos, r.Key, r.StartUs, r.EndUs, r.Err, r.Nil, r.Val, r.Hit, r.PXAT-run.EpochMs, r.TTLMs)
	}
	for _, w := range run.Writes {
		fmt.Printf("write %+v\n", w)
	}
	for _, e := range run.Events {
		s := e.String()
		if len(s) > 260 {
			s = s[:260]
		}
		fmt.Println(s)
	}
}

type dbgFataler struct{ msg string }

func (d *dbgFataler) Fatalf(format string, args ...any) {
	d.msg = fmt.Sprintf(format, args...)
	panic(d)
}

// TestDebug_C39Plan runs the plan in VERIF_DEBUG_C39PLAN up to VERIF_DEBUG_REPEAT times until c39Check fails, and
// prints the failing run's message (with C39_DEBUG=<dir> the check also dumps events and observations there).
func TestDebug_C39Plan(t *testing.T) {
	p := os.Getenv("VERIF_DEBUG_C39PLAN")
	if p == "" {
		t.Skip()
	}
	b, _ := os.ReadFile(p)
	var plan c39Plan
	if err := json.Unmarshal(b, &plan); err != nil {
		t.Fatal(err)
	}
	n := 200
	fmt.Sscan(os.Getenv("VERIF_DEBUG_REPEAT"), &n)
	col := stat.For("DBG", "c39")
	fails := 0
	for i := 0; i < n; i++ {
		run := c39Exec(t, plan)
		if run.Res.Frozen {
			continue
		}
		tr := c39BuildTruth(run.Events)
		msg := func() (m string) {
			defer func() {
				if x := recover(); x != nil {
					if d, ok := x.(*dbgFataler); ok {
						m = d.msg
						return
					}
					panic(x)
				}
			}()
			c39Check(col, &dbgFataler{}, plan, run, tr)
			return ""
		}()
		if msg != "" {
			fails++
			if fails == 1 {
				fmt.Printf("run %d: %s\n", i, msg)
				for _, e := range run.Events {
					s := e.String()
					if len(s) > 300 {
						s = s[:300]
					}
					fmt.Println(s)
				}
			}
		}
	}
	fmt.Printf("%d of %d runs failed\n", fails, n)
}
