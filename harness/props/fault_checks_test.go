package props

import (
	"encoding/json"
	"errors"
	"fmt"
	"os"
	"path/filepath"
	"sort"
	"strings"
	"testing"
	"time"

	"github.com/redis/rueidis"
	"pgregory.net/rapid"
	"verifkit/stat"
)

func fBasic(c *stat.Collector, rt stat.Fataler, prop string, plan fPlan, run fRun) {
	if run.Res.Panic != nil {
		c.Fail(rt, prop+".no-panic", run.Res.String(), plan)
	}
}

func fNoHang(c *stat.Collector, rt stat.Fataler, prop string, plan fPlan, run fRun) {
	if run.Pending > 0 || run.Res.Deadlock {
		c.Fail(rt, prop+".no-hang", fmt.Sprintf("%d calls had not returned after 5 virtual minutes (every latency in the plan is below 3 s): %v; %s", run.Pending, run.PendingOps, run.Res), plan)
	}
	if run.Res.Leak {
		c.Fail(rt, prop+".no-leak", run.Res.String(), plan)
	}
	if !run.CloseOK {
		c.Fail(rt, prop+".close-returns", "Client.Close did not return within a virtual minute", plan)
	}
}

// ---------------------------------------------------------------------------------- C03

func TestVerif_C03_AtMostOnce(t *testing.T) {
	c := stat.For("C03", "single-"+queueLabel()).Rule("fault plans in a bubble against a single client: 1-5 callers x 1-4 ops (Do / DoMulti / blocking Do of VEXEC uid tagged write, read-only or retryable) with, for the k-th arrival of each command, one of {ok, drop before the server reads, drop after it executed, drop mid-reply, LOADING, ERR, nil}, server latency up to 2.5 s (longer than the 1 s close grace), ConnLifetime 20-200 ms, retry on/off with generated RetryDelay tables, connection kills and Close at generated instants; oracle: the server's execution log shows every non-retryable uid at most once; non-trivial = a write command's attempt ended in a transport failure or its connection expired after it had been written")
	defer c.Flush()
	if p := os.Getenv("VERIF_REPLAY_JSON"); p != "" {
		var plan fPlan
		b, _ := os.ReadFile(p)
		if err := json.Unmarshal(b, &plan); err != nil {
			t.Fatal(err)
		}
		for i := 0; i < 5; i++ {
			t0 := time.Now()
			run := fRunPlan(t, plan)
			t.Logf("replay %d: wall %v frozen=%v pending=%d dials=%d events=%d execs=%v", i, time.Since(t0), run.Res.Frozen, run.Pending, run.Dials, len(run.Events), fExecCount(run.ExecLog))
		}
		return
	}
	rapid.Check(t, func(rt *rapid.T) {
		bias := rapid.SampledFrom([]string{"", "lifetime"}).Draw(rt, "bias")
		plan := genFaultPlan(rt, bias)
		saveCase("c03", plan)
		run := fRunPlan(t, plan)
		if run.Res.Frozen {
			c.Inconclusive("virtual-clock-freeze")
			return
		}
		fBasic(c, rt, "C03", plan, run)
		attempts := fAttempts(run.Events)
		execs := fExecCount(run.ExecLog)
		nt := false
		var classes []string
		startOf := map[[2]int]int64{}
		for _, r := range run.Results {
			startOf[[2]int{r.Caller, r.Op}] = r.StartUs
		}
		for ci, ops := range plan.Callers {
			for oi, op := range ops {
				issued, hasStart := startOf[[2]int{ci, oi}]
				if !hasStart {
					issued = -1
				}
				for _, cm := range op.Cmds {
					if cm.Class != "write" {
						continue
					}
					for _, a := range attempts[cm.UID] {
						if a.Outcome == "transport" {
							nt = true
						}
					}
					if plan.Cfg.ConnLifetimeUs > 0 && cm.LatUs > plan.Cfg.ConnLifetimeUs {
						nt = true
					}
					if n := execs[cm.UID]; n > 1 {
						if fResentAfterExpiry(plan, issued, attempts[cm.UID]) && c.Known("C03.conn-expired-resend") {
							classes = append(classes, "known-expired-resend")
							continue
						}
						c.Fail(rt, "C03.at-most-once", fmt.Sprintf("non-retryable command %s (%s) was executed %d times by the server; its attempts: %+v\n%s", cm.UID, op.Kind, n, attempts[cm.UID], fTrace(run, attempts[cm.UID])), plan)
					}
					if n := len(attempts[cm.UID]); n > 1 && execs[cm.UID] <= 1 {
						// re-sent but only executed once (the first send was dropped before execution): still a
						// second send without a redirect reply proving non-execution
						if fResentAfterExpiry(plan, issued, attempts[cm.UID]) && c.Known("C03.conn-expired-resend") {
							continue
						}
						c.Fail(rt, "C03.no-resend", fmt.Sprintf("non-retryable command %s was sent %d times without a MOVED/ASK/REDIRECT reply in between; attempts: %+v", cm.UID, n, attempts[cm.UID]), plan)
					}
				}
			}
		}
		if plan.Cfg.ConnLifetimeUs > 0 {
			classes = append(classes, "lifetime")
		}
		c.Eval(nt, fKey(plan), classes...)
		c.Sample(nt, func() any { return plan })
	})
}

// fResentAfterExpiry: every re-send of the command followed an attempt on a connection that the call had
// been handed to before that connection's lifetime timer fired and that then ended at an age of at least
// ConnLifetime (the recorded finding C03.conn-expired-resend: whatever such a connection still owes when it
// ends is completed with errConnExpired and re-sent unconditionally) - not a server-side drop of a young
// connection, and not a call that was issued after the expiry (an expired connection accepts nothing new).
func fResentAfterExpiry(plan fPlan, issuedUs int64, as []fAttempt) bool {
	if plan.Cfg.ConnLifetimeUs <= 0 || len(as) < 2 {
		return false
	}
	life := int64(plan.Cfg.ConnLifetimeUs)
	first := 0
	for k := range as {
		if as[k].ArrAtUs < as[first].ArrAtUs {
			first = k
		}
	}
	// Once the lifetime timer has fired every failure of that connection is reported as "expired",
	// whoever closes it in the end. The server may parse the copies in any order (a copy can sit in
	// its input buffer behind a slow command), so: all attempts but one were on connections that
	// ended at an age of at least ConnLifetime.
	notExpired := 0
	for k := range as {
		expired := as[k].ConnCloseUs >= 0 && as[k].ConnCloseUs-as[k].ConnOpenUs >= life
		if expired && k == first && issuedUs > as[k].ConnOpenUs+life {
			expired = false // issued after the expiry of the connection that carried it first
		}
		if !expired {
			notExpired++
		}
	}
	return notExpired <= 1
}

// ---------------------------------------------------------------------------------- C28

func TestVerif_C28_RetryPolicy(t *testing.T) {
	c := stat.For("C28", "single-"+queueLabel()).Rule("same fault plans without ConnLifetime: per-attempt outcome sequences from {transport failure at three points, LOADING, ordinary ERR, nil, value}, RetryDelay = generated table attempt->{-1, 0, d}, DisableRetry, deadlines, Close during back-off, commands read-only / write / write.ToRetryable(); oracle from the server log and the RetryDelay call log: a (k+1)-th send of a command exists only if attempt k ended in a transport error or LOADING, the command is read-only or retryable, retries are enabled and RetryDelay(k) >= 0; RetryDelay is only consulted for such attempts; an ordinary error / nil / value reply is what the caller gets; non-trivial = an outcome sequence with >= 2 failures of different kinds, or a failure on a command that must not be retried")
	defer c.Flush()
	rapid.Check(t, func(rt *rapid.T) {
		plan := genFaultPlan(rt, "")
		plan.Cfg.ConnLifetimeUs = 0
		saveCase("c28", plan)
		run := fRunPlan(t, plan)
		if run.Res.Frozen {
			c.Inconclusive("virtual-clock-freeze")
			return
		}
		fBasic(c, rt, "C28", plan, run)
		attempts := fAttempts(run.Events)
		nt := false
		delay := func(k int) int {
			if k-1 < len(plan.Cfg.RetryDelaysUs) && k >= 1 {
				return plan.Cfg.RetryDelaysUs[k-1]
			}
			return -1
		}
		for _, r := range run.Results {
			op := plan.Callers[r.Caller][r.Op]
			allRetryable := true
			for _, cm := range op.Cmds {
				if cm.Class == "write" {
					allRetryable = false
				}
			}
			for i, cm := range op.Cmds {
				as := attempts[cm.UID]
				kinds := map[string]bool{}
				for _, a := range as {
					if a.Outcome != "ok" {
						kinds[a.Outcome] = true
					}
				}
				if len(kinds) >= 2 || (len(kinds) >= 1 && (cm.Class == "write" || !plan.Cfg.Retry)) {
					nt = true
				}
				// every send after the first needs a justification in the previous attempt
				for k := 1; k < len(as); k++ {
					prev := as[k-1]
					retryableOutcome := prev.Outcome == "transport" || prev.Outcome == "loading" || prev.ConnKilled
					// a batch is re-sent as a whole when any of its members failed in a retryable way
					// (the members of one send occupy consecutive request slots of one connection; a member that never
					// reached the server on that connection means the connection was lost within the batch)
					for j, other := range op.Cmds {
						found := false
						for _, a := range attempts[other.UID] {
							if a.Conn == prev.Conn && a.Req == prev.Req-i+j {
								found = true
								if a.Outcome == "transport" || a.Outcome == "loading" || a.ConnKilled {
									retryableOutcome = true
								}
							}
						}
						if !found {
							retryableOutcome = true
						}
					}
					why := ""
					switch {
					case !plan.Cfg.Retry:
						why = "retries are disabled"
					case !allRetryable:
						why = fmt.Sprintf("the call contains a command that is neither read-only nor retryable (%s is %s)", cm.UID, cm.Class)
					case !retryableOutcome:
						why = fmt.Sprintf("attempt %d ended with an ordinary reply (%s)", k, prev.Outcome)
					case delay(k) < 0:
						why = fmt.Sprintf("RetryDelay(%d) is negative", k)
					}
					if why != "" {
						c.Fail(rt, "C28.retry-only-when-allowed", fmt.Sprintf("command %s was sent %d times although %s; attempts %+v", cm.UID, len(as), why, as), plan)
					}
				}
				// the final reply is handed to the caller as it is
				if r.Done && i < len(r.Results) && len(as) > 0 && op.DeadlineUs == 0 && op.CancelUs == 0 {
					last := as[len(as)-1]
					res := r.Results[i]
					if last.ConnKilled {
						continue
					}
					if run.CloseAtUs >= 0 && r.EndUs >= run.CloseAtUs {
						continue // Close ran while the call was pending: the reply may be replaced by ErrClosing (C04)
					}
					switch last.Outcome {
					case "err":
						var re *rueidis.RedisError
						if err := res.Error(); !errors.As(err, &re) || re.Error() != "plain "+cm.UID {
							c.Fail(rt, "C28.reply-as-is", fmt.Sprintf("command %s: the server's last reply was -ERR plain %s but the caller got %v", cm.UID, cm.UID, err), plan)
						}
					case "nil":
						if !rueidis.IsRedisNil(res.Error()) {
							c.Fail(rt, "C28.reply-as-is", fmt.Sprintf("command %s: the server's last reply was null but the caller got %v", cm.UID, res.Error()), plan)
						}
					case "ok":
						if s, err := res.ToString(); err != nil || !strings.HasPrefix(s, "VEXEC:"+cm.UID+":") {
							if len(op.Cmds) > 1 && err != nil && !isReplyErr(err) {
								continue // another member of the batch failed in transit
							}
							c.Fail(rt, "C28.reply-as-is", fmt.Sprintf("command %s: the server answered a value but the caller got %q,%v", cm.UID, s, err), plan)
						}
					}
				}
			}
		}
		for _, rc := range run.RetryCalls {
			if rc.UID == "" {
				continue
			}
			if !plan.Cfg.Retry {
				c.Fail(rt, "C28.disable-retry", fmt.Sprintf("RetryDelay was consulted (attempt %d of %s) although DisableRetry is set", rc.Attempt, rc.UID), plan)
			}
		}
		c.Eval(nt, fKey(plan))
		c.Sample(nt, func() any { return plan })
	})
}

func isReplyErr(err error) bool {
	var re *rueidis.RedisError
	return errors.As(err, &re)
}

// ---------------------------------------------------------------------------------- C04

func genC04Plan(rt *rapid.T) fPlan {
	p := genFaultPlan(rt, "")
	p.Cfg.ConnLifetimeUs = 0
	p.Cfg.Retry = false  // a read-only command against a dead server is retried for ever by design
	p.Cfg.Multiplex = -1 // one pipeline connection (see the later-calls clause)
	hang := rapid.IntRange(0, 3).Draw(rt, "hangScenario") == 0
	if hang {
		p.Cfg.KeepAliveUs = 50000
		p.Cfg.WriteTimeoutUs = 100000
	}
	hangDone := false
	for ci := range p.Callers {
		for oi := range p.Callers[ci] {
			op := &p.Callers[ci][oi]
			for k := range op.Cmds {
				op.Cmds[k].Plan = nil
				if hang && !hangDone && op.Kind != "block" && !(ci == 0 && oi == 0) && rapid.IntRange(0, 3).Draw(rt, "hangHere") == 0 {
					op.Cmds[k].Plan = []string{"hang"}
					hangDone = true
				}
			}
			op.DeadlineUs, op.CancelUs = 0, 0
			if rapid.IntRange(0, 5).Draw(rt, "recv") == 0 {
				// nobody unsubscribes in these plans: a Receive ends through the failure or through its context
				op.Kind, op.Cmds = "receive", nil
				op.CancelUs = rapid.SampledFrom([]int{20000, 100000, 400000}).Draw(rt, "recvFor")
			}
		}
	}
	if hang && rapid.Bool().Draw(rt, "blockingOnPipelineFirst") {
		// before the peer hangs, the pipeline connection serves a blocking command (ToPipe) that ends with a nil or an
		// error reply: the keep-alive check, which pauses while a blocking command is pending, must be armed again
		first := &p.Callers[0][0]
		first.GapUs, first.Kind, first.Key = 0, "blockpipe", ""
		first.Cmds = []fCmd{{UID: "ubp", Class: "write", Plan: []string{rapid.SampledFrom([]string{"nil", "err", "ok"}).Draw(rt, "blockPipeOutcome")}}}
	}
	if !hang && rapid.IntRange(0, 2).Draw(rt, "internalFault") == 0 {
		// the connection drops at a step of the client's own protocol (between an unsubscribe confirmation and the
		// PONG that follows it, inside the MULTI of a cache fetch, during the handshake of a reconnect, ...)
		p.IntFaults = append(p.IntFaults, fIntFault{
			Cmd:  rapid.SampledFrom([]string{"PING", "PING@UNSUB", "PING@UNSUB", "UNSUBSCRIBE", "SUBSCRIBE", "MULTI", "EXEC", "PTTL", "HELLO"}).Draw(rt, "intCmd"),
			Nth:  rapid.IntRange(0, 2).Draw(rt, "intNth"),
			Kind: rapid.SampledFrom([]string{"drop-before", "drop-before", "drop-after", "drop-mid"}).Draw(rt, "intKind")})
		if f := &p.IntFaults[len(p.IntFaults)-1]; f.Cmd == "HELLO" {
			f.Nth += 2 // NewClient dials the pipeline connection (and fails the whole client if that dial fails): only re-dials are hit
		}
	}
	if len(p.IntFaults) > 0 && p.IntFaults[0].Cmd == "PING@UNSUB" {
		for ci := range p.Callers {
			for oi := range p.Callers[ci] {
				if op := &p.Callers[ci][oi]; op.Kind == "receive" {
					op.CancelUs = rapid.SampledFrom([]int{200, 2000, 10000}).Draw(rt, "recvShort")
				}
			}
		}
		if len(p.Callers) > 0 && len(p.Callers[0]) > 0 {
			op := &p.Callers[0][0]
			op.Kind, op.Cmds, op.Key, op.CancelUs = "receive", nil, "", rapid.SampledFrom([]int{200, 2000, 10000}).Draw(rt, "recvShort0")
		}
		// and somebody unsubscribes with a plain Do while other calls are pending
		ci := rapid.IntRange(0, len(p.Callers)-1).Draw(rt, "unsubCaller")
		oi := rapid.IntRange(0, len(p.Callers[ci])-1).Draw(rt, "unsubOp")
		if ci != 0 || oi != 0 {
			op := &p.Callers[ci][oi]
			op.Kind, op.Cmds, op.Key, op.CancelUs, op.DeadlineUs = "unsub", nil, "", 0, 0
		} else {
			p.Callers[0] = append(p.Callers[0], fOp{GapUs: rapid.IntRange(0, 3000).Draw(rt, "unsubGap"), Kind: "unsub"})
		}
		for i := range p.Events {
			p.Events[i].AtUs += 15000 // let the unsubscribe happen first
		}
	}
	if len(p.Events) == 0 && !hangDone {
		p.Events = append(p.Events, fEvent{AtUs: rapid.IntRange(0, 60000).Draw(rt, "evAt2"), Kind: rapid.SampledFrom([]string{"kill-conns", "close"}).Draw(rt, "evKind2")})
	}
	// calls whose own context is already done when they are made (the closed client answers them with the context's
	// error; nothing may follow from that for the calls after them)
	for _, e := range p.Events {
		if e.Kind != "close" || rapid.IntRange(0, 2).Draw(rt, "doneCtxAfterClose") != 0 {
			continue
		}
		for ci := range p.Callers {
			for oi := range p.Callers[ci] {
				op := &p.Callers[ci][oi]
				if (op.Kind == "do" || op.Kind == "multi" || op.Kind == "cache") && rapid.IntRange(0, 2).Draw(rt, "doneCtx") == 0 {
					op.DoneCtx, op.DeadlineUs, op.CancelUs = true, 0, 0
				}
			}
		}
		// and somebody calls again afterwards
		ci := rapid.IntRange(0, len(p.Callers)-1).Draw(rt, "afterDoneCaller")
		p.Callers[ci] = append(p.Callers[ci], fOp{GapUs: rapid.IntRange(0, 70000).Draw(rt, "afterDoneGap"), Kind: "do", Cmds: []fCmd{{UID: "uz", Class: "read"}}})
		break
	}
	return p
}

func TestVerif_C04_NoHangingCalls(t *testing.T) {
	c := stat.For("C04", "single-"+queueLabel()).Rule("a mix of synchronous, pipelined, cached, subscribed (Receive) and blocking calls of 1-5 callers is pending when one of {all connections reset by the peer, the peer stops reading and writing (keep-alive ping must fire), Client.Close} happens at a generated virtual instant, followed by later calls; oracle: every call returns (a call that never returns is a bubble deadlock or exceeds the virtual-time budget), a Receive cut by the failure returns an error, calls that start strictly after a connection reset with nothing else failing succeed on a fresh connection, calls that start after Close returned fail with ErrClosing, Close returns; non-trivial = >= 2 different kinds of call pending when the failure hits")
	defer c.Flush()
	// regression tier: the shrunk plans of the defects this check found (fixed since) run first, without the generator
	replayPlans(t, "C04", func(rt stat.Fataler, plan fPlan) { c04Check(c, t, rt, plan) })
	rapid.Check(t, func(rt *rapid.T) { c04Check(c, t, rt, genC04Plan(rt)) })
}

func c04Check(c *stat.Collector, t *testing.T, rt stat.Fataler, plan fPlan) {
	{
		saveCase("c04", plan)
		run := fRunPlan(t, plan)
		if run.Res.Frozen {
			// second opinion outside the bubble: an artefact of virtual time dissolves in real time, a livelock stays
			if rr := fRunPlanReal(t, plan); rr.Pending > 0 || rr.Res.Frozen {
				c.Fail(rt, "C04.no-hang", fmt.Sprintf("the bubble froze (some goroutine spins or sits on a mutex and stops the virtual clock) and, run again in real time, %d calls had not returned after 60 s: %v", rr.Pending, rr.PendingOps), plan)
			}
			c.Inconclusive("virtual-clock-freeze")
			return
		}
		fBasic(c, rt, "C04", plan, run)
		fNoHang(c, rt, "C04", plan, run)
		hang := plan.Cfg.KeepAliveUs > 0
		// the instants of failures
		var failAt []int64
		closeEv := false
		for _, e := range plan.Events {
			failAt = append(failAt, int64(e.AtUs))
			if e.Kind == "close" {
				closeEv = true
			}
		}
		for _, e := range run.Events {
			if e.Kind == "fault" && fUIDOf(e.Argv) == "" {
				failAt = append(failAt, e.At) // an internal fault of the plan fired
			}
		}
		planUnsubscribes := false
		for _, ops := range plan.Callers {
			for _, op := range ops {
				planUnsubscribes = planUnsubscribes || op.Kind == "unsub"
			}
		}
		kindsPending := map[string]bool{}
		for _, r := range run.Results {
			op := plan.Callers[r.Caller][r.Op]
			where := fmt.Sprintf("caller %d op %d (%s)", r.Caller, r.Op, op.Kind)
			if !r.Done {
				continue
			}
			for _, f := range failAt {
				if r.StartUs <= f && r.EndUs >= f {
					kindsPending[op.Kind] = true
				}
			}
			if run.CloseAtUs >= 0 && r.AfterCloseUs > 0 {
				// started after Close returned
				if op.Kind == "receive" {
					if !fIsClosing(r.Err) {
						c.Fail(rt, "C04.err-closing-after-close", fmt.Sprintf("%s started %dus after Close returned and got %v, want ErrClosing", where, r.AfterCloseUs, r.Err), plan)
					}
				}
				for i, rr := range r.Results {
					if op.DoneCtx && isCtxErr(rr.Error()) {
						continue // the call's own context was done before the call: either error is right
					}
					if !fIsClosing(rr.Error()) {
						c.Fail(rt, "C04.err-closing-after-close", fmt.Sprintf("%s position %d started %dus after Close returned and got %v, want ErrClosing", where, i, r.AfterCloseUs, rr.Error()), plan)
					}
				}
				continue
			}
			if op.Kind == "receive" && r.Err == nil && !planUnsubscribes {
				c.Fail(rt, "C04.receive-returns-error", fmt.Sprintf("%s returned nil although nobody unsubscribed (the connection failed or the client was closed)", where), plan)
			}
			// later calls are served by a fresh connection. An idle connection only learns that it is dead
			// when the next call uses it, so the calls that discover the failure may fail: the first
			// pipelined call after the reset (one pipeline connection in these plans) and up to PoolSize
			// blocking calls (one per idle pool connection). Everything that starts after those must succeed.
			if !closeEv && !hang && len(failAt) > 0 && op.Kind != "receive" {
				after := true
				for _, f := range failAt {
					if !(r.StartUs > f || r.EndUs < f) {
						after = false
					}
				}
				last := failAt[0]
				for _, f := range failAt {
					last = max(last, f)
				}
				var discoveredAt int64 = -1 // end of the first post-reset call of the same kind of connection
				earlierBlocking := 0
				for _, o := range run.Results {
					ok := plan.Callers[o.Caller][o.Op].Kind
					if o == r || !o.Done || o.StartUs <= last || ok == "receive" {
						continue
					}
					if (ok == "block") != (op.Kind == "block") {
						continue
					}
					if op.Kind == "block" {
						if o.EndUs < r.StartUs {
							earlierBlocking++
						}
					} else if o.EndUs < r.StartUs && (discoveredAt < 0 || o.EndUs < discoveredAt) {
						discoveredAt = o.EndUs
					}
				}
				discovered := discoveredAt >= 0
				if op.Kind == "block" {
					discovered = earlierBlocking >= plan.Cfg.PoolSize
				}
				if after && r.StartUs > last && discovered {
					for i, rr := range r.Results {
						if err := rr.Error(); err != nil {
							c.Fail(rt, "C04.later-calls-succeed", fmt.Sprintf("%s position %d started at +%dus, after the last connection reset (+%dus) with nothing else failing, and got %v", where, i, r.StartUs, last, err), plan)
						}
					}
				}
			}
		}
		nt := len(kindsPending) >= 2
		var classes []string
		if hang {
			classes = append(classes, "peer-hangs")
		}
		if closeEv {
			classes = append(classes, "close")
		}
		c.Eval(nt, fKey(plan), classes...)
		c.Sample(nt, func() any { return plan })
	}
}

// ---------------------------------------------------------------------------------- C05

func genC05Plan(rt *rapid.T) fPlan {
	p := genFaultPlan(rt, "")
	p.Cfg.ConnLifetimeUs = 0
	p.Cfg.RingScale = max(p.Cfg.RingScale, 4)
	p.Events = nil
	p.Cfg.RetryDelaysUs = rapid.SliceOfN(rapid.SampledFrom([]int{0, 1000, 20000, 200000, 2000000}), 0, 4).Draw(rt, "delays05")
	for ci := range p.Callers {
		for oi := range p.Callers[ci] {
			op := &p.Callers[ci][oi]
			for k := range op.Cmds {
				cm := &op.Cmds[k]
				cm.LatUs = rapid.SampledFrom([]int{0, 1000, 30000, 300000, 3000000}).Draw(rt, "lat05")
				if queueLabel() == "ring" && k > 0 {
					cm.LatUs = 0
				}
				cm.Plan = nil
				if cm.Class != "write" && rapid.IntRange(0, 2).Draw(rt, "loading05") == 0 {
					n := rapid.IntRange(1, 3).Draw(rt, "nLoading")
					for j := 0; j < n; j++ {
						cm.Plan = append(cm.Plan, "loading")
					}
				}
			}
			op.DeadlineUs, op.CancelUs, op.DoneCtx = 0, 0, false
			switch rapid.IntRange(0, 5).Draw(rt, "ctx05") {
			case 0, 1:
				op.DeadlineUs = rapid.SampledFrom([]int{200, 5000, 50000, 500000}).Draw(rt, "deadline05")
			case 2:
				op.CancelUs = rapid.SampledFrom([]int{1, 200, 5000, 50000}).Draw(rt, "cancel05")
			case 3:
				op.DoneCtx = true
			case 4:
				// both: cancelled by hand long before its deadline
				op.CancelUs = rapid.SampledFrom([]int{200, 5000, 50000}).Draw(rt, "cancel05b")
				op.DeadlineUs = op.CancelUs * rapid.SampledFrom([]int{20, 100}).Draw(rt, "deadlineFactor")
			}
		}
	}
	return p
}

func TestVerif_C05_Deadlines(t *testing.T) {
	c := stat.For("C05", "single-"+queueLabel()).Rule("calls with a deadline, a manual cancel or an already-done context are placed in the waiting states: queued behind a stalled server (latency up to 3 s), synchronous read, blocking pool exhausted (pool size 1-3 held by slow blocking calls), waiting on another caller's cache flight, retry back-off (LOADING replies with RetryDelay up to 2 s); oracle in virtual time: a call with a deadline returns no later than deadline + 5 ms, a manually cancelled call on an auto-pipelined connection returns within 5 ms of the cancel, a call whose context is already done sends nothing, no call hangs; non-trivial = some call was still waiting when its deadline passed or its context was cancelled")
	defer c.Flush()
	const slackUs = 5000
	rapid.Check(t, func(rt *rapid.T) {
		plan := genC05Plan(rt)
		saveCase("c05", plan)
		run := fRunPlan(t, plan)
		if run.Res.Frozen {
			c.Inconclusive("virtual-clock-freeze")
			return
		}
		fBasic(c, rt, "C05", plan, run)
		fNoHang(c, rt, "C05", plan, run)
		attempts := fAttempts(run.Events)
		nt := false
		for _, r := range run.Results {
			op := plan.Callers[r.Caller][r.Op]
			where := fmt.Sprintf("caller %d op %d (%s)", r.Caller, r.Op, op.Kind)
			if !r.Done {
				continue
			}
			took := r.EndUs - r.StartUs
			cut := false
			for _, rr := range r.Results {
				if isCtxErr(rr.NonRedisError()) {
					cut = true
				}
			}
			switch {
			case op.DoneCtx:
				for _, cm := range op.Cmds {
					if len(attempts[cm.UID]) > 0 {
						c.Fail(rt, "C05.done-context-sends-nothing", fmt.Sprintf("%s was called with a context that was already done, yet %s reached the server", where, cm.UID), plan)
					}
				}
				for i, rr := range r.Results {
					if op.Kind == "cache" && rr.Error() == nil && rr.IsCacheHit() {
						continue // served from the local cache: nothing was sent
					}
					if !isCtxErr(rr.NonRedisError()) {
						c.Fail(rt, "C05.done-context-sends-nothing", fmt.Sprintf("%s position %d with a done context returned %v", where, i, rr.Error()), plan)
					}
				}
			// A context with a deadline that is also cancelled by hand: the cancel must be honoured where the call is served
			// by an auto-pipelined connection (AlwaysPipelining); a connection in synchronous mode only arms the deadline.
			case op.DeadlineUs > 0 && !(op.CancelUs > 0 && op.Kind != "block" && plan.Cfg.Pipelining):
				if cut && took >= int64(op.DeadlineUs) {
					nt = true
				}
				if took > int64(op.DeadlineUs)+slackUs {
					c.Fail(rt, "C05.deadline", fmt.Sprintf("%s has a %dus deadline but returned after %dus", where, op.DeadlineUs, took), plan)
				}
			case op.CancelUs > 0 && op.Kind != "block":
				if cut {
					nt = true
				}
				if cut && took > int64(op.CancelUs)+slackUs {
					c.Fail(rt, "C05.cancel", fmt.Sprintf("%s was cancelled after %dus but returned after %dus", where, op.CancelUs, took), plan)
				}
				if !cut && took > int64(op.CancelUs)+slackUs {
					// it returned something else than the context error long after the cancel: it did not honour it
					c.Fail(rt, "C05.cancel", fmt.Sprintf("%s was cancelled after %dus, ignored it and returned after %dus", where, op.CancelUs, took), plan)
				}
			}
		}
		c.Eval(nt, fKey(plan))
		c.Sample(nt, func() any { return plan })
	})
}

// fTrace renders the server-side events of the connections that carried the given attempts.
func fTrace(run fRun, as []fAttempt) string {
	conns := map[int]bool{}
	for _, a := range as {
		conns[a.Conn] = true
	}
	out := ""
	n := 0
	for _, e := range run.Events {
		if conns[e.Conn] && n < 120 {
			s := e.String()
			if len(s) > 160 {
				s = s[:160]
			}
			out += s + "\n"
			n++
		}
	}
	return out
}

// replayPlans runs check on every plan stored in /verif/replays/<prop>/*.json (shrunk failing plans of repaired
// defects and of seeded mutations): a seconds-long regression tier that does not depend on the generators.
func replayPlans(t *testing.T, prop string, check func(rt stat.Fataler, plan fPlan)) {
	root := os.Getenv("VERIF_ROOT")
	if root == "" {
		root = "/verif"
	}
	files, _ := filepath.Glob(filepath.Join(root, "replays", prop, "*.json"))
	sort.Strings(files)
	for _, f := range files {
		b, err := os.ReadFile(f)
		if err != nil {
			t.Fatalf("replay %s: %v", f, err)
		}
		var plan fPlan
		if err := json.Unmarshal(b, &plan); err != nil {
			t.Fatalf("replay %s: %v", f, err)
		}
		// a plan fixes the timing of the calls and events, not the order of goroutines that become runnable at one
		// virtual instant: run it a few times
		for i := 0; i < 4; i++ {
			check(t, plan)
		}
	}
}
