package props

import (
	"context"
	"errors"
	"fmt"
	"os"
	"reflect"
	"sort"
	"strconv"
	"strings"
	"testing"
	"time"
	"unsafe"

	"github.com/redis/rueidis"
	"github.com/redis/rueidis/mock"
	"github.com/redis/rueidis/rueidiscompat"
	"github.com/redis/rueidis/rueidiscompatmock"
	"pgregory.net/rapid"
	"verifkit/stat"
)

// ---------------------------------------------------------------------------------------------
// C42 "the go-redis adapter sends the same commands as go-redis" (level: other, partial by nature:
// go-redis is not available in the sandbox).
//
// Part A/B (TestVerif_C42_MockDifferential): for every adapter method that has an ExpectXxx
// counterpart in rueidiscompatmock, generated arguments are given to both; the adapter's argv
// (captured by a recording client) must be accepted by the mock's expectation (or be equal to the
// expected argv modulo keyword case / numeric spelling). NOTE: the mock does not call the adapter,
// but most of its ExpectXxx bodies are transliterations of the adapter bodies that use the same
// rueidis command builder, so this oracle detects drift between the two code bases (regressions in
// the adapter), not misconceptions about go-redis shared by both.
//
// Part C (TestVerif_C42_Reference, below): a hand-written table of go-redis v9 argv conventions.
// ---------------------------------------------------------------------------------------------

// ---- recording client -----------------------------------------------------------------------

type c42Rec struct {
	cmds  [][]string
	other []string
}

var c42Builder = mock.NewClient(nil).B()

func (c *c42Rec) B() rueidis.Builder { return c42Builder }
func (c *c42Rec) rec(cmd []string) rueidis.RedisResult {
	argv := append([]string{}, cmd...)
	if len(argv) == 1 && strings.EqualFold(argv[0], "ROLE") {
		return rueidis.NewResult(mock.RedisArray(mock.RedisString("master")), nil)
	}
	c.cmds = append(c.cmds, argv)
	return rueidis.NewErrorResult(errC42Rec)
}

var errC42Rec = errors.New("recording client: no reply")

func (c *c42Rec) Do(ctx context.Context, cmd rueidis.Completed) rueidis.RedisResult {
	return c.rec(cmd.Commands())
}
func (c *c42Rec) DoMulti(ctx context.Context, multi ...rueidis.Completed) []rueidis.RedisResult {
	out := make([]rueidis.RedisResult, len(multi))
	for i, m := range multi {
		out[i] = c.rec(m.Commands())
	}
	return out
}
func (c *c42Rec) DoCache(ctx context.Context, cmd rueidis.Cacheable, ttl time.Duration) rueidis.RedisResult {
	return c.rec(cmd.Commands())
}
func (c *c42Rec) DoMultiCache(ctx context.Context, multi ...rueidis.CacheableTTL) []rueidis.RedisResult {
	out := make([]rueidis.RedisResult, len(multi))
	for i, m := range multi {
		out[i] = c.rec(m.Cmd.Commands())
	}
	return out
}
func (c *c42Rec) DoStream(ctx context.Context, cmd rueidis.Completed) rueidis.RedisResultStream {
	c.other = append(c.other, "DoStream")
	return rueidis.NewErrorResultStream(errC42Rec)
}
func (c *c42Rec) DoMultiStream(ctx context.Context, multi ...rueidis.Completed) rueidis.MultiRedisResultStream {
	c.other = append(c.other, "DoMultiStream")
	return rueidis.NewErrorResultStream(errC42Rec)
}
func (c *c42Rec) Receive(ctx context.Context, subscribe rueidis.Completed, fn func(msg rueidis.PubSubMessage)) error {
	c.other = append(c.other, "Receive")
	return errC42Rec
}
func (c *c42Rec) Dedicated(fn func(rueidis.DedicatedClient) error) error {
	c.other = append(c.other, "Dedicated")
	return errC42Rec
}
func (c *c42Rec) Dedicate() (rueidis.DedicatedClient, func()) {
	c.other = append(c.other, "Dedicate")
	return nil, func() {}
}
func (c *c42Rec) Nodes() map[string]rueidis.Client {
	return map[string]rueidis.Client{"127.0.0.1:6379": c}
}
func (c *c42Rec) Mode() rueidis.ClientMode { return rueidis.ClientModeStandalone }
func (c *c42Rec) Close()                   {}

var _ rueidis.Client = (*c42Rec)(nil)

// ---- type directed argument generation ------------------------------------------------------

var (
	c42TimeT = reflect.TypeOf(time.Time{})
	c42DurT  = reflect.TypeOf(time.Duration(0))
	c42AnyT  = reflect.TypeOf((*any)(nil)).Elem()
	c42CtxT  = reflect.TypeOf((*context.Context)(nil)).Elem()
)

// values a parameter / field with a closed vocabulary may take (by lower-cased field name or "Method#index")
var c42Enums = map[string][]string{
	"order": {"", "ASC", "DESC"}, "sort": {"", "ASC", "DESC"},
	"unit": {"", "m", "km", "ft", "mi"}, "radiusunit": {"", "m", "km"}, "boxunit": {"", "m", "mi"},
	"mode": {"", "NX", "XX"}, "aggregate": {"", "SUM", "MIN", "MAX"},
	"BitCount.unit": {"", "BYTE", "BIT"},
	"LInsert#1":     {"BEFORE", "AFTER"},
	"LMove#2":       {"LEFT", "RIGHT"}, "LMove#3": {"LEFT", "RIGHT"}, "BLMove#2": {"LEFT", "RIGHT"}, "BLMove#3": {"LEFT", "RIGHT"},
	"BLMPop#1": {"LEFT", "RIGHT"}, "LMPop#0": {"LEFT", "RIGHT"}, "ZMPop#0": {"MIN", "MAX"}, "BZMPop#1": {"MIN", "MAX"},
	"GeoDist#3": {"", "m", "km", "ft", "mi"}, "BitPosSpan#4": {"BYTE", "BIT"}, "ScanType#3": {"string", "hash", "zset"},
}

// integer parameters with a closed domain
var c42IntEnums = map[string][]int64{"BitPosSpan#1": {0, 1}, "BitPos#1": {0, 1}, "SetBit#2": {0, 1}}

// string parameters that real callers never leave empty and where an empty value changes the command shape
var c42NonEmpty = map[string]bool{"SortStore#1": true}

var c42Strings = []string{"", "k", "key:{1}", "a b", "\x00\xff", "-", "+", "(1", "[a", "+inf", "-inf", "0", "*", "$", "0-1", "héllo"}

func c42GenScalarAny(rt *rapid.T) any {
	switch rapid.IntRange(0, 7).Draw(rt, "anykind") {
	case 0:
		return rapid.SampledFrom([]int{0, 1, -7, 42}).Draw(rt, "int")
	case 1:
		return rapid.SampledFrom([]int64{0, -1, 1 << 40}).Draw(rt, "int64")
	case 2:
		return rapid.SampledFrom([]float64{0, 1.5, -2.25, 3, 1e21, 0.0000001}).Draw(rt, "float")
	case 3:
		return rapid.Bool().Draw(rt, "bool")
	case 4:
		return []byte(rapid.SampledFrom(c42Strings).Draw(rt, "bytes"))
	case 5:
		// go-redis writes a time.Time argument as RFC3339Nano text (proto.Writer.WriteArg handles it before the
		// encoding.BinaryMarshaler case, although time.Time implements that interface) and any other
		// BinaryMarshaler as its MarshalBinary bytes
		if rapid.Bool().Draw(rt, "timeOrMarshaler") {
			return rapid.SampledFrom([]time.Time{time.Unix(1546335910, 222125).UTC(), time.Unix(1700000000, 0).UTC(), time.Unix(1, 999999999).UTC()}).Draw(rt, "timeval")
		}
		return c42Marshaler{rapid.SampledFrom(c42Strings).Draw(rt, "marshaled")}
	}
	return rapid.SampledFrom(c42Strings).Draw(rt, "str")
}

// c42Marshaler is a user type that serialises itself (encoding.BinaryMarshaler).
type c42Marshaler struct{ s string }

func (m c42Marshaler) MarshalBinary() ([]byte, error) { return []byte("bin:" + m.s), nil }

func c42Gen(rt *rapid.T, t reflect.Type, hint string) (v reflect.Value, ok bool) {
	v = reflect.New(t).Elem()
	switch {
	case t == c42TimeT:
		times := []time.Time{time.Unix(1700000000, 0), time.Unix(1700000000, 123456789), time.Unix(1, 0), time.Unix(4102444800, 999000000)}
		if strings.Contains(hint, ".") {
			times = append(times, time.Time{}) // "not set" in option structs; a direct time parameter of year 1 is not a realistic input
		}
		tm := rapid.SampledFrom(times).Draw(rt, "time")
		v.Set(reflect.ValueOf(tm))
		return v, true
	case t == c42DurT:
		d := rapid.SampledFrom([]time.Duration{0, 1, 500 * time.Microsecond, time.Millisecond, 999 * time.Millisecond, 1500 * time.Millisecond, time.Second, 90 * time.Second, time.Hour, -1, -time.Second}).Draw(rt, "dur")
		v.SetInt(int64(d))
		return v, true
	}
	switch t.Kind() {
	case reflect.String:
		if e, found := c42Enums[hint]; found {
			v.SetString(rapid.SampledFrom(e).Draw(rt, "enum"))
		} else if e, found := c42Enums[strings.ToLower(hint[strings.LastIndex(hint, ".")+1:])]; found {
			v.SetString(rapid.SampledFrom(e).Draw(rt, "enum"))
		} else if c42NonEmpty[hint] {
			v.SetString(rapid.SampledFrom(c42Strings[1:]).Draw(rt, "str"))
		} else {
			v.SetString(rapid.SampledFrom(c42Strings).Draw(rt, "str"))
		}
	case reflect.Int, reflect.Int64, reflect.Int32:
		if e, found := c42IntEnums[hint]; found {
			v.SetInt(rapid.SampledFrom(e).Draw(rt, "intenum"))
			break
		}
		v.SetInt(rapid.SampledFrom([]int64{0, 1, -1, 2, 10, 100, -5, 1 << 31}).Draw(rt, "int"))
	case reflect.Int8, reflect.Int16:
		v.SetInt(rapid.SampledFrom([]int64{0, 1}).Draw(rt, "int8"))
	case reflect.Uint64, reflect.Uint, reflect.Uint32:
		v.SetUint(rapid.SampledFrom([]uint64{0, 1, 99, 1 << 40}).Draw(rt, "uint"))
	case reflect.Float64, reflect.Float32:
		v.SetFloat(rapid.SampledFrom([]float64{0, 1, -1.5, 2.5, 13.361389, 100, 1e21, 0.0000001}).Draw(rt, "float"))
	case reflect.Bool:
		v.SetBool(rapid.Bool().Draw(rt, "bool"))
	case reflect.Interface:
		if t != c42AnyT {
			return v, false
		}
		var a any
		if strings.HasSuffix(strings.ToLower(hint), "values") {
			switch rapid.IntRange(0, 3).Draw(rt, "valuesKind") {
			case 0:
				a = []string{"f1", rapid.SampledFrom(c42Strings).Draw(rt, "v1"), "f2", rapid.SampledFrom(c42Strings).Draw(rt, "v2")}
			case 1:
				a = map[string]any{"f1": c42GenScalarAny(rt)}
			case 2:
				a = []any{"f1", c42GenScalarAny(rt)}
			default:
				a = map[string]string{"f1": rapid.SampledFrom(c42Strings).Draw(rt, "v1")}
			}
		} else {
			a = c42GenScalarAny(rt)
		}
		v.Set(reflect.ValueOf(a))
	case reflect.Slice:
		n := rapid.IntRange(0, 3).Draw(rt, "len")
		s := reflect.MakeSlice(t, 0, n)
		for i := 0; i < n; i++ {
			e, ok := c42Gen(rt, t.Elem(), hint)
			if !ok {
				return v, false
			}
			s = reflect.Append(s, e)
		}
		v.Set(s)
	case reflect.Map:
		if t.Key().Kind() != reflect.String {
			return v, false
		}
		m := reflect.MakeMap(t)
		if rapid.Bool().Draw(rt, "oneEntry") {
			e, ok := c42Gen(rt, t.Elem(), hint)
			if !ok {
				return v, false
			}
			m.SetMapIndex(reflect.ValueOf("f1").Convert(t.Key()), e)
		}
		v.Set(m)
	case reflect.Ptr:
		if rapid.IntRange(0, 9).Draw(rt, "nilptr") == 0 {
			return v, true
		}
		e, ok := c42Gen(rt, t.Elem(), hint)
		if !ok {
			return v, false
		}
		p := reflect.New(t.Elem())
		p.Elem().Set(e)
		v.Set(p)
	case reflect.Struct:
		for i := 0; i < t.NumField(); i++ {
			f := t.Field(i)
			if !f.IsExported() {
				continue
			}
			if !f.Anonymous && !rapid.Bool().Draw(rt, "set:"+f.Name) {
				continue
			}
			e, ok := c42Gen(rt, f.Type, t.Name()+"."+strings.ToLower(f.Name))
			if !ok {
				return v, false
			}
			v.Field(i).Set(e)
		}
	default:
		return v, false
	}
	return v, true
}

// c42Convert adapts an adapter argument to the parameter type of the ExpectXxx method
func c42Convert(v reflect.Value, to reflect.Type) (reflect.Value, bool) {
	from := v.Type()
	switch {
	case from == to:
		return v, true
	case to.Kind() == reflect.Interface && from.Implements(to):
		out := reflect.New(to).Elem()
		out.Set(v)
		return out, true
	case to.Kind() == reflect.Ptr && to.Elem() == from:
		p := reflect.New(from)
		p.Elem().Set(v)
		return p, true
	case from.Kind() == reflect.Ptr && from.Elem() == to:
		if v.IsNil() {
			return reflect.Zero(to), true
		}
		return v.Elem(), true
	}
	isInt := func(k reflect.Kind) bool { return k >= reflect.Int && k <= reflect.Int64 }
	if isInt(from.Kind()) && isInt(to.Kind()) && from != c42DurT && to != c42DurT {
		out := reflect.New(to).Elem()
		out.SetInt(v.Int())
		if out.Int() != v.Int() {
			return v, false
		}
		return out, true
	}
	if isInt(from.Kind()) && from != c42DurT && to.Kind() == reflect.String {
		return reflect.ValueOf(strconv.FormatInt(v.Int(), 10)).Convert(to), true
	}
	if from.Kind() == reflect.Slice && to.Kind() == reflect.Slice {
		out := reflect.MakeSlice(to, 0, v.Len())
		for i := 0; i < v.Len(); i++ {
			e, ok := c42Convert(v.Index(i), to.Elem())
			if !ok {
				return v, false
			}
			out = reflect.Append(out, e)
		}
		return out, true
	}
	return v, false
}

type c42Pair struct {
	Name    string
	Adapter reflect.Method
	Expect  reflect.Method
	Reason  string // why it cannot be compared ("" = comparable)
}

func c42Compatible(from, to reflect.Type) bool {
	v := reflect.Zero(from)
	if from.Kind() == reflect.Ptr {
		v = reflect.New(from.Elem())
	}
	_, ok := c42Convert(v, to)
	return ok
}

// c42Pairs lists every ExpectXxx of the mock with the adapter method of the same name and decides whether the
// arguments of one can be handed to the other.
func c42Pairs(client *rueidiscompatmock.Client, cm rueidiscompatmock.ClientMock) []c42Pair {
	ct, et := reflect.TypeOf(client), reflect.TypeOf(cm)
	var out []c42Pair
	for i := 0; i < et.NumMethod(); i++ {
		em := et.Method(i)
		if !strings.HasPrefix(em.Name, "Expect") || em.Name == "ExpectationsWereMet" {
			continue
		}
		p := c42Pair{Name: strings.TrimPrefix(em.Name, "Expect"), Expect: em}
		if alias, found := c42Alias[p.Name]; found {
			p.Name = alias
		}
		am, ok := ct.MethodByName(p.Name)
		switch {
		case !ok:
			p.Reason = "no adapter method of that name"
		case am.Type.NumIn() < 2 || am.Type.In(1) != c42CtxT:
			p.Reason = "adapter method does not take a context first"
		case p.Name == "Do" || p.Name == "TxPipeline":
			p.Reason = "generic Do of the mock client, not an adapter method"
		default:
			p.Adapter = am
			a, e := am.Type, em.Type
			na, ne := a.NumIn()-2, e.NumIn()-1
			if na != ne || a.IsVariadic() != e.IsVariadic() {
				p.Reason = fmt.Sprintf("different parameter lists: %s vs %s", a, e)
				break
			}
			for k := 0; k < na; k++ {
				if !c42Compatible(a.In(k+2), e.In(k+1)) {
					p.Reason = fmt.Sprintf("parameter %d: %s cannot be given as %s", k, a.In(k+2), e.In(k+1))
					break
				}
			}
			if p.Reason == "" && (e.NumOut() != 1 || e.Out(0).Kind() != reflect.Ptr || e.Out(0).Elem().Kind() != reflect.Struct) {
				p.Reason = "ExpectXxx returns no expectation object"
			}
		}
		out = append(out, p)
	}
	sort.Slice(out, func(i, j int) bool { return out[i].Name < out[j].Name })
	return out
}

// spelling differences between ExpectXxx and the adapter method
var c42Alias = map[string]string{"SetEx": "SetEX", "FCallRo": "FCallRO"}

var c42PairMethods = map[string]bool{"HSet": true, "HMSet": true, "MSet": true, "MSetNX": true}

type c42Args struct {
	adapter []reflect.Value // without receiver and context
	expect  []reflect.Value
	Desc    []string
}

func c42GenArgs(rt *rapid.T, p c42Pair) (a c42Args, ok bool) {
	at, et := p.Adapter.Type, p.Expect.Type
	n := at.NumIn() - 2
	for k := 0; k < n; k++ {
		pt := at.In(k + 2)
		hint := fmt.Sprintf("%s#%d", p.Name, k)
		var v reflect.Value
		if at.IsVariadic() && k == n-1 {
			// the variadic tail is generated as a slice and spread
			if pt.Elem() == c42AnyT && c42PairMethods[p.Name] {
				var vals []any
				switch rapid.IntRange(0, 3).Draw(rt, "pairsKind") {
				case 0:
					vals = []any{"f1", c42GenScalarAny(rt)}
				case 1:
					vals = []any{"f1", c42GenScalarAny(rt), "f2", c42GenScalarAny(rt)}
				case 2:
					vals = []any{[]string{"f1", rapid.SampledFrom(c42Strings).Draw(rt, "v1"), "f2", rapid.SampledFrom(c42Strings).Draw(rt, "v2")}}
				default:
					vals = []any{map[string]any{"f1": c42GenScalarAny(rt)}}
				}
				v = reflect.ValueOf(vals)
			} else {
				var g bool
				if v, g = c42Gen(rt, pt, hint); !g {
					return a, false
				}
				if v.Len() == 0 && rapid.IntRange(0, 3).Draw(rt, "keepEmpty") != 0 {
					e, g := c42Gen(rt, pt.Elem(), hint)
					if !g {
						return a, false
					}
					v = reflect.Append(v, e)
				}
			}
			ev, g := c42Convert(v, et.In(k+1))
			if !g {
				return a, false
			}
			for i := 0; i < v.Len(); i++ {
				a.adapter = append(a.adapter, v.Index(i))
				a.expect = append(a.expect, ev.Index(i))
			}
			a.Desc = append(a.Desc, fmt.Sprintf("%#v", v.Interface()))
			continue
		}
		v, g := c42Gen(rt, pt, hint)
		if !g {
			return a, false
		}
		ev, g := c42Convert(v, et.In(k+1))
		if !g {
			return a, false
		}
		a.adapter = append(a.adapter, v)
		a.expect = append(a.expect, ev)
		a.Desc = append(a.Desc, c42Describe(v))
	}
	return a, true
}

func c42Describe(v reflect.Value) string {
	if v.Kind() == reflect.Ptr && !v.IsNil() {
		return "&" + fmt.Sprintf("%+v", v.Elem().Interface())
	}
	if v.Type() == c42DurT {
		return time.Duration(v.Int()).String()
	}
	return fmt.Sprintf("%#v", v.Interface())
}

// c42Expected reads the argv an expectation object was built with (unexported: exp.expected)
func c42Expected(ret reflect.Value) ([]string, bool) {
	if ret.Kind() != reflect.Ptr || ret.IsNil() {
		return nil, false
	}
	f := ret.Elem().FieldByName("exp")
	if !f.IsValid() || f.Kind() != reflect.Ptr || f.IsNil() {
		return nil, false
	}
	exp := reflect.NewAt(f.Type(), unsafe.Pointer(f.UnsafeAddr())).Elem().Elem()
	e := exp.FieldByName("expected")
	if !e.IsValid() {
		return nil, false
	}
	s, ok := reflect.NewAt(e.Type(), unsafe.Pointer(e.UnsafeAddr())).Elem().Interface().([]string)
	return s, ok && len(s) > 0
}

func c42Call(fn reflect.Value, args []reflect.Value) (out []reflect.Value, panicked any) {
	defer func() {
		if r := recover(); r != nil {
			panicked = r
		}
	}()
	return fn.Call(args), nil
}

func c42KeywordLike(s string) bool {
	if len(s) == 0 || len(s) > 16 {
		return false
	}
	for _, r := range s {
		if !(r >= 'a' && r <= 'z' || r >= 'A' && r <= 'Z' || r == '_' || r == '.') {
			return false
		}
	}
	return true
}

func c42TokenEq(a, b string) bool {
	if a == b {
		return true
	}
	if c42KeywordLike(a) && strings.EqualFold(a, b) {
		return true
	}
	fa, ea := strconv.ParseFloat(a, 64)
	fb, eb := strconv.ParseFloat(b, 64)
	return ea == nil && eb == nil && fa == fb
}

func c42ArgvEq(a, b []string) bool {
	if len(a) != len(b) {
		return false
	}
	for i := range a {
		if !c42TokenEq(a[i], b[i]) {
			return false
		}
	}
	return true
}

// c42MockDefect recognises disagreements that are caused by known defects of the mock (decided with the go-redis v9 sources in
// mind, see the final report), in which the adapter is the side that follows go-redis. They are counted, never reported.
func c42MockDefect(method string, args c42Args, adapter, expected []string) string {
	// (1) go-redis' formatMs/formatSec turn a positive duration below one unit into 1; the adapter does the same, the mock's
	// copies of these helpers truncate to 0
	subUnit := false
	var walk func(v reflect.Value)
	walk = func(v reflect.Value) {
		switch {
		case v.Type() == c42DurT:
			if d := time.Duration(v.Int()); d > 0 && d < time.Second {
				subUnit = true
			}
		case v.Kind() == reflect.Struct && v.Type() != c42TimeT:
			for i := 0; i < v.NumField(); i++ {
				walk(v.Field(i))
			}
		case v.Kind() == reflect.Ptr && !v.IsNil():
			walk(v.Elem())
		}
	}
	for _, a := range args.adapter {
		walk(a)
	}
	if subUnit && len(adapter) == len(expected) {
		diff, only10 := 0, true
		for i := range adapter {
			if !c42TokenEq(adapter[i], expected[i]) {
				diff++
				if !(adapter[i] == "1" && expected[i] == "0") {
					only10 = false
				}
			}
		}
		if diff == 1 && only10 {
			return "mock-defect:sub-unit-duration-not-rounded-up-to-1"
		}
	}
	// (2) ExpectBitCount ignores BitCount.Unit (go-redis >= 9.5 sends it)
	if method == "BitCount" && len(adapter) == len(expected)+1 && c42ArgvEq(adapter[:len(expected)], expected) {
		return "mock-defect:bitcount-unit-ignored"
	}
	// (3) the pairs matcher of the mock treats an empty key as "command without key"
	if c42PairMethods[method] && len(args.adapter) > 0 && args.adapter[0].Kind() == reflect.String && args.adapter[0].String() == "" {
		return "mock-defect:empty-key-in-pairs-matcher"
	}
	return ""
}

type c42Case struct {
	Method   string     `json:"method"`
	Args     []string   `json:"args"`
	Adapter  [][]string `json:"adapter_argv"`
	Expected []string   `json:"mock_expected_argv"`
}

func TestVerif_C42_MockDifferential(t *testing.T) {
	c := stat.For("C42", "mock-differential").Rule("every rueidiscompatmock.ExpectXxx that has an adapter method of the same name with convertible parameters; arguments generated from the parameter types by reflection (strings incl. empty/binary, ints incl. 0/negative, floats incl. exponent forms, durations incl. sub-millisecond/sub-second/negative, times, variadic lists incl. empty, option structs with every subset of fields set, nil pointers, value lists as pairs/slice/map); the adapter's argv is captured by a recording client; oracle: the mock accepts the adapter's command for an expectation registered with the same arguments, or the expected argv equals the captured argv modulo keyword case and numeric spelling; non-trivial = a case with at least one non-zero argument beyond the key that reached the comparison")
	c.Assume("rueidiscompatmock mirrors go-redis/redismock but is largely a transliteration of the adapter (same command builder): agreement shows absence of drift between adapter and mock, not conformance to go-redis; conformance is sampled by TestVerif_C42_Reference")
	defer c.Flush()
	client, cm := rueidiscompatmock.NewClientMock()
	pairs := c42Pairs(client, cm)
	var usable []c42Pair
	notCompared := map[string]string{}
	for _, p := range pairs {
		if p.Reason == "" {
			usable = append(usable, p)
		} else {
			notCompared[p.Name] = p.Reason
		}
	}
	compared := map[string]int{}
	defer func() {
		var names []string
		for n := range compared {
			names = append(names, n)
		}
		sort.Strings(names)
		c.Extra("methods_with_expect_counterpart", len(pairs))
		c.Extra("methods_driven", len(usable))
		c.Extra("methods_compared", len(names))
		c.Extra("methods_compared_list", names)
		c.Extra("methods_no_reference", notCompared)
	}()
	if len(usable) < 150 {
		t.Fatalf("harness: only %d comparable methods found", len(usable))
	}
	recClient := &c42Rec{}
	recAdapter := rueidiscompat.NewAdapter(recClient)
	explore, exploreN := map[string]string{}, map[string]int{}
	defer func() {
		for k, v := range explore {
			t.Logf("EXPLORE %d x %s", exploreN[k], v)
		}
	}()
	ctx := reflect.ValueOf(context.Background())
	rapid.Check(t, func(rt *rapid.T) {
		p := rapid.SampledFrom(usable).Draw(rt, "method")
		args, ok := c42GenArgs(rt, p)
		if !ok {
			c.Inconclusive("argument type not generated: " + p.Name)
			return
		}
		cs := c42Case{Method: p.Name, Args: args.Desc}
		// 1. the adapter on the recording client
		recClient.cmds, recClient.other = nil, nil
		_, pa := c42Call(reflect.ValueOf(recAdapter).MethodByName(p.Name), append([]reflect.Value{ctx}, args.adapter...))
		cs.Adapter = recClient.cmds
		// 2. the expectation
		cm.ClearExpect()
		ret, pe := c42Call(reflect.ValueOf(cm).MethodByName(p.Expect.Name), args.expect)
		if pa != nil || pe != nil {
			// invalid argument combinations are rejected by panics; both sides must agree on that, but it is not an argv question
			cl := "panic-both"
			if pa == nil {
				cl = "panic-mock-only"
			} else if pe == nil {
				cl = "panic-adapter-only"
			}
			c.Eval(false, nil, cl, cl+":"+p.Name)
			cm.ClearExpect()
			return
		}
		expected, haveExp := c42Expected(ret[0])
		cs.Expected = expected
		// 3. the adapter on the mock client
		_, pm := c42Call(reflect.ValueOf(client).MethodByName(p.Name), append([]reflect.Value{ctx}, args.adapter...))
		met := pm == nil && cm.ExpectationsWereMet() == nil
		cm.ClearExpect()
		verdict := ""
		switch {
		case met:
			verdict = "agree-mock-accepts"
		case len(recClient.cmds) == 1 && haveExp && c42ArgvEq(recClient.cmds[0], expected):
			verdict = "agree-normalised"
		case len(recClient.cmds) != 1 || len(recClient.other) > 0:
			verdict = "not-single-command"
		case !haveExp:
			verdict = "no-expected-argv"
		}
		nt := false
		for i, a := range args.adapter {
			if i > 0 && !a.IsZero() {
				nt = true
			}
		}
		if verdict == "" {
			verdict = c42MockDefect(p.Name, args, recClient.cmds[0], expected)
		}
		if verdict == "" {
			id := "C42.mock-disagrees." + p.Name
			if os.Getenv("VERIF_C42_EXPLORE") != "" {
				if explore[p.Name] == "" {
					explore[p.Name] = fmt.Sprintf("%s(%s): adapter %q mock %q", p.Name, strings.Join(args.Desc, ", "), recClient.cmds[0], expected)
				}
				exploreN[p.Name]++
			} else if !c.Known(id) {
				c.Fail(rt, id, fmt.Sprintf("%s(%s): adapter sends %q, the mock expects %q", p.Name, strings.Join(args.Desc, ", "), recClient.cmds[0], expected), cs)
			}
			verdict = "known-disagreement"
		}
		if strings.HasPrefix(verdict, "mock-defect") {
			c.Inconclusive(verdict)
		}
		if strings.HasPrefix(verdict, "agree") {
			compared[p.Name]++
		} else {
			nt = false
		}
		key := fmt.Sprintf("%s %q", p.Name, cs.Adapter)
		c.Eval(nt, key, verdict)
		c.Sample(nt, func() any { return cs })
	})
}

// ---------------------------------------------------------------------------------------------
// Part C: hand-written reference of go-redis v9 argv conventions (written from the go-redis v9
// sources: string_commands.go, generic_commands.go, hash/list/set/sortedset/stream/geo/bitmap/
// scripting/pubsub commands and commands.go helpers usePrecise / formatMs / formatSec / appendArg).
// Only conventions that are stable across the v9 line are listed. Keywords are compared without
// regard to case, numbers numerically; the optional "=" of XADD/XTRIM thresholds is ignored; for SET
// variants the order of the options after "SET key value" is free (Redis accepts any order).
// ---------------------------------------------------------------------------------------------

func c42GrUsePrecise(d time.Duration) bool { return d < time.Second || d%time.Second != 0 }
func c42GrMs(d time.Duration) string {
	if d > 0 && d < time.Millisecond {
		return "1"
	}
	return strconv.FormatInt(int64(d/time.Millisecond), 10)
}
func c42GrSec(d time.Duration) string {
	if d > 0 && d < time.Second {
		return "1"
	}
	return strconv.FormatInt(int64(d/time.Second), 10)
}

// c42GrArg formats one argument the way go-redis' appendArg does
func c42GrArg(v any) string {
	switch x := v.(type) {
	case nil:
		return ""
	case string:
		return x
	case []byte:
		return string(x)
	case int:
		return strconv.Itoa(x)
	case int64:
		return strconv.FormatInt(x, 10)
	case uint64:
		return strconv.FormatUint(x, 10)
	case float64:
		return strconv.FormatFloat(x, 'f', -1, 64)
	case bool:
		if x {
			return "1"
		}
		return "0"
	case time.Duration:
		return strconv.FormatInt(x.Nanoseconds(), 10)
	case time.Time:
		return x.Format(time.RFC3339Nano)
	case c42Marshaler:
		b, _ := x.MarshalBinary()
		return string(b)
	}
	panic(fmt.Sprintf("harness: c42GrArg(%T)", v))
}

func c42I(i int64) string   { return strconv.FormatInt(i, 10) }
func c42F(f float64) string { return strconv.FormatFloat(f, 'f', -1, 64) }

type c42RefOut struct {
	Args string
	Call func(a rueidiscompat.Cmdable)
	Want []string
	Free int // tokens from this index on are compared as a multiset (0 = whole argv in order)
}

type c42RefEntry struct {
	Name string
	Gen  func(rt *rapid.T) c42RefOut
}

var c42Bg = context.Background()

func c42RS(rt *rapid.T, l string) string { return rapid.SampledFrom(c42Strings).Draw(rt, l) }
func c42RK(rt *rapid.T) string {
	return rapid.SampledFrom([]string{"k", "key:{1}", "a b", "\x00\xff", "héllo", ""}).Draw(rt, "key")
}
func c42RI(rt *rapid.T, l string) int64 {
	return rapid.SampledFrom([]int64{0, 1, -1, 2, 10, 100, -5, 1 << 40}).Draw(rt, l)
}
func c42RF(rt *rapid.T, l string) float64 {
	return rapid.SampledFrom([]float64{0, 1, -1.5, 2.5, 13.361389, 100}).Draw(rt, l)
}
func c42RD(rt *rapid.T, l string) time.Duration {
	return rapid.SampledFrom([]time.Duration{time.Second, 10 * time.Second, 1500 * time.Millisecond, 100 * time.Millisecond, 2 * time.Hour, 500 * time.Microsecond, 999 * time.Millisecond, time.Millisecond}).Draw(rt, l)
}
func c42RAny(rt *rapid.T) any { return c42GenScalarAny(rt) }
func c42RKeys(rt *rapid.T) []string {
	return rapid.SliceOfN(rapid.SampledFrom([]string{"k", "k2", "a b", "\x00\xff"}), 1, 3).Draw(rt, "keys")
}
func c42RAnys(rt *rapid.T) []any {
	n := rapid.IntRange(1, 3).Draw(rt, "nvals")
	out := make([]any, n)
	for i := range out {
		out[i] = c42RAny(rt)
	}
	return out
}
func c42GrArgs(vs []any) []string {
	out := make([]string, len(vs))
	for i, v := range vs {
		out[i] = c42GrArg(v)
	}
	return out
}
func c42Cat(parts ...any) []string {
	var out []string
	for _, p := range parts {
		switch x := p.(type) {
		case string:
			out = append(out, x)
		case []string:
			out = append(out, x...)
		default:
			panic("harness: c42Cat")
		}
	}
	return out
}

func c42RefTable() []c42RefEntry {
	type A = rueidiscompat.Cmdable
	e := func(name string, gen func(rt *rapid.T) c42RefOut) c42RefEntry { return c42RefEntry{name, gen} }
	key1 := func(name, cmd string, call func(a A, k string)) c42RefEntry {
		return e(name, func(rt *rapid.T) c42RefOut {
			k := c42RK(rt)
			return c42RefOut{fmt.Sprintf("%q", k), func(a A) { call(a, k) }, []string{cmd, k}, 0}
		})
	}
	expiry := func(rt *rapid.T) (time.Duration, []string) {
		d := rapid.SampledFrom([]time.Duration{0, rueidiscompat.KeepTTL, time.Second, 10 * time.Second, 1500 * time.Millisecond, 100 * time.Millisecond, 2 * time.Hour, 500 * time.Microsecond}).Draw(rt, "expiration")
		switch {
		case d > 0 && c42GrUsePrecise(d):
			return d, []string{"px", c42GrMs(d)}
		case d > 0:
			return d, []string{"ex", c42GrSec(d)}
		case d == rueidiscompat.KeepTTL:
			return d, []string{"keepttl"}
		}
		return d, nil
	}
	zmembers := func(rt *rapid.T) ([]rueidiscompat.Z, []string) {
		n := rapid.IntRange(1, 3).Draw(rt, "nz")
		var zs []rueidiscompat.Z
		var flat []string
		for i := 0; i < n; i++ {
			z := rueidiscompat.Z{Score: c42RF(rt, "score"), Member: c42RS(rt, "member")}
			zs = append(zs, z)
			flat = append(flat, c42F(z.Score), z.Member)
		}
		return zs, flat
	}
	scanTail := func(match string, count int64) []string {
		var out []string
		if match != "" {
			out = append(out, "match", match)
		}
		if count > 0 {
			out = append(out, "count", c42I(count))
		}
		return out
	}
	rangeBy := func(rt *rapid.T) (rueidiscompat.ZRangeBy, []string) {
		o := rueidiscompat.ZRangeBy{Min: rapid.SampledFrom([]string{"-inf", "(1", "0", "[a", "-"}).Draw(rt, "min"), Max: rapid.SampledFrom([]string{"+inf", "5", "(10", "[z", "+"}).Draw(rt, "max")}
		if rapid.Bool().Draw(rt, "limit") {
			o.Offset, o.Count = rapid.SampledFrom([]int64{0, 1, 5}).Draw(rt, "offset"), rapid.SampledFrom([]int64{0, 1, 10, -1}).Draw(rt, "count")
		}
		var lim []string
		if o.Offset != 0 || o.Count != 0 {
			lim = []string{"limit", c42I(o.Offset), c42I(o.Count)}
		}
		return o, lim
	}
	return []c42RefEntry{
		// ---- strings
		key1("Get", "get", func(a A, k string) { a.Get(c42Bg, k) }),
		key1("GetDel", "getdel", func(a A, k string) { a.GetDel(c42Bg, k) }),
		key1("StrLen", "strlen", func(a A, k string) { a.StrLen(c42Bg, k) }),
		key1("Incr", "incr", func(a A, k string) { a.Incr(c42Bg, k) }),
		key1("Decr", "decr", func(a A, k string) { a.Decr(c42Bg, k) }),
		e("Set", func(rt *rapid.T) c42RefOut {
			k, v := c42RK(rt), c42RAny(rt)
			d, tail := expiry(rt)
			return c42RefOut{fmt.Sprintf("%q, %#v, %v", k, v, d), func(a A) { a.Set(c42Bg, k, v, d) }, c42Cat("set", k, c42GrArg(v), tail), 0}
		}),
		e("SetEX", func(rt *rapid.T) c42RefOut {
			k, v, d := c42RK(rt), c42RAny(rt), c42RD(rt, "expiration")
			return c42RefOut{fmt.Sprintf("%q, %#v, %v", k, v, d), func(a A) { a.SetEX(c42Bg, k, v, d) }, []string{"setex", k, c42GrSec(d), c42GrArg(v)}, 0}
		}),
		e("SetNX", func(rt *rapid.T) c42RefOut {
			k, v := c42RK(rt), c42RAny(rt)
			d, tail := expiry(rt)
			want := c42Cat("set", k, c42GrArg(v), tail, "nx")
			if d == 0 {
				want = []string{"setnx", k, c42GrArg(v)}
			}
			return c42RefOut{fmt.Sprintf("%q, %#v, %v", k, v, d), func(a A) { a.SetNX(c42Bg, k, v, d) }, want, 3}
		}),
		e("SetXX", func(rt *rapid.T) c42RefOut {
			k, v := c42RK(rt), c42RAny(rt)
			d, tail := expiry(rt)
			return c42RefOut{fmt.Sprintf("%q, %#v, %v", k, v, d), func(a A) { a.SetXX(c42Bg, k, v, d) }, c42Cat("set", k, c42GrArg(v), tail, "xx"), 3}
		}),
		e("SetArgs", func(rt *rapid.T) c42RefOut {
			k, v := c42RK(rt), c42RAny(rt)
			var sa rueidiscompat.SetArgs
			want := []string{"set", k, c42GrArg(v)}
			if sa.KeepTTL = rapid.Bool().Draw(rt, "KeepTTL"); sa.KeepTTL {
				want = append(want, "keepttl")
			}
			if rapid.Bool().Draw(rt, "ExpireAt") {
				sa.ExpireAt = time.Unix(rapid.SampledFrom([]int64{1700000000, 4102444800}).Draw(rt, "exat"), 0)
				want = append(want, "exat", c42I(sa.ExpireAt.Unix()))
			}
			if rapid.Bool().Draw(rt, "TTL") {
				sa.TTL = c42RD(rt, "ttl")
				if c42GrUsePrecise(sa.TTL) {
					want = append(want, "px", c42GrMs(sa.TTL))
				} else {
					want = append(want, "ex", c42GrSec(sa.TTL))
				}
			}
			if sa.Mode = rapid.SampledFrom([]string{"", "NX", "XX"}).Draw(rt, "Mode"); sa.Mode != "" {
				want = append(want, sa.Mode)
			}
			if sa.Get = rapid.Bool().Draw(rt, "Get"); sa.Get {
				want = append(want, "get")
			}
			return c42RefOut{fmt.Sprintf("%q, %#v, %+v", k, v, sa), func(a A) { a.SetArgs(c42Bg, k, v, sa) }, want, 3}
		}),
		e("GetEx", func(rt *rapid.T) c42RefOut {
			k := c42RK(rt)
			d := rapid.SampledFrom([]time.Duration{0, time.Second, 1500 * time.Millisecond, 90 * time.Second, 500 * time.Microsecond}).Draw(rt, "expiration")
			want := []string{"getex", k}
			switch {
			case d > 0 && c42GrUsePrecise(d):
				want = append(want, "px", c42GrMs(d))
			case d > 0:
				want = append(want, "ex", c42GrSec(d))
			default:
				want = append(want, "persist")
			}
			return c42RefOut{fmt.Sprintf("%q, %v", k, d), func(a A) { a.GetEx(c42Bg, k, d) }, want, 0}
		}),
		e("GetSet", func(rt *rapid.T) c42RefOut {
			k, v := c42RK(rt), c42RAny(rt)
			return c42RefOut{fmt.Sprintf("%q, %#v", k, v), func(a A) { a.GetSet(c42Bg, k, v) }, []string{"getset", k, c42GrArg(v)}, 0}
		}),
		e("GetRange", func(rt *rapid.T) c42RefOut {
			k, s, en := c42RK(rt), c42RI(rt, "start"), c42RI(rt, "end")
			return c42RefOut{fmt.Sprintf("%q, %d, %d", k, s, en), func(a A) { a.GetRange(c42Bg, k, s, en) }, []string{"getrange", k, c42I(s), c42I(en)}, 0}
		}),
		e("Append", func(rt *rapid.T) c42RefOut {
			k, v := c42RK(rt), c42RS(rt, "value")
			return c42RefOut{fmt.Sprintf("%q, %q", k, v), func(a A) { a.Append(c42Bg, k, v) }, []string{"append", k, v}, 0}
		}),
		e("IncrBy", func(rt *rapid.T) c42RefOut {
			k, n := c42RK(rt), c42RI(rt, "n")
			return c42RefOut{fmt.Sprintf("%q, %d", k, n), func(a A) { a.IncrBy(c42Bg, k, n) }, []string{"incrby", k, c42I(n)}, 0}
		}),
		e("DecrBy", func(rt *rapid.T) c42RefOut {
			k, n := c42RK(rt), c42RI(rt, "n")
			return c42RefOut{fmt.Sprintf("%q, %d", k, n), func(a A) { a.DecrBy(c42Bg, k, n) }, []string{"decrby", k, c42I(n)}, 0}
		}),
		e("IncrByFloat", func(rt *rapid.T) c42RefOut {
			k, f := c42RK(rt), c42RF(rt, "f")
			return c42RefOut{fmt.Sprintf("%q, %v", k, f), func(a A) { a.IncrByFloat(c42Bg, k, f) }, []string{"incrbyfloat", k, c42F(f)}, 0}
		}),
		e("MGet", func(rt *rapid.T) c42RefOut {
			ks := c42RKeys(rt)
			return c42RefOut{fmt.Sprintf("%q", ks), func(a A) { a.MGet(c42Bg, ks...) }, c42Cat("mget", ks), 0}
		}),
		e("MSet", func(rt *rapid.T) c42RefOut {
			k1, v1, k2, v2 := c42RK(rt), c42RAny(rt), c42RK(rt), c42RAny(rt)
			return c42RefOut{fmt.Sprintf("%q, %#v, %q, %#v", k1, v1, k2, v2), func(a A) { a.MSet(c42Bg, k1, v1, k2, v2) }, []string{"mset", k1, c42GrArg(v1), k2, c42GrArg(v2)}, 0}
		}),
		// ---- generic
		e("Del", func(rt *rapid.T) c42RefOut {
			ks := c42RKeys(rt)
			return c42RefOut{fmt.Sprintf("%q", ks), func(a A) { a.Del(c42Bg, ks...) }, c42Cat("del", ks), 0}
		}),
		e("Exists", func(rt *rapid.T) c42RefOut {
			ks := c42RKeys(rt)
			return c42RefOut{fmt.Sprintf("%q", ks), func(a A) { a.Exists(c42Bg, ks...) }, c42Cat("exists", ks), 0}
		}),
		e("Unlink", func(rt *rapid.T) c42RefOut {
			ks := c42RKeys(rt)
			return c42RefOut{fmt.Sprintf("%q", ks), func(a A) { a.Unlink(c42Bg, ks...) }, c42Cat("unlink", ks), 0}
		}),
		key1("TTL", "ttl", func(a A, k string) { a.TTL(c42Bg, k) }),
		key1("PTTL", "pttl", func(a A, k string) { a.PTTL(c42Bg, k) }),
		key1("Persist", "persist", func(a A, k string) { a.Persist(c42Bg, k) }),
		key1("Type", "type", func(a A, k string) { a.Type(c42Bg, k) }),
		key1("Keys", "keys", func(a A, k string) { a.Keys(c42Bg, k) }),
		e("Expire", func(rt *rapid.T) c42RefOut {
			k, d := c42RK(rt), c42RD(rt, "expiration")
			mode := rapid.SampledFrom([]string{"", "NX", "XX", "GT", "LT"}).Draw(rt, "mode")
			want := []string{"expire", k, c42GrSec(d)}
			call := func(a A) { a.Expire(c42Bg, k, d) }
			switch mode {
			case "NX":
				call = func(a A) { a.ExpireNX(c42Bg, k, d) }
			case "XX":
				call = func(a A) { a.ExpireXX(c42Bg, k, d) }
			case "GT":
				call = func(a A) { a.ExpireGT(c42Bg, k, d) }
			case "LT":
				call = func(a A) { a.ExpireLT(c42Bg, k, d) }
			}
			if mode != "" {
				want = append(want, mode)
			}
			return c42RefOut{fmt.Sprintf("Expire%s %q, %v", mode, k, d), call, want, 0}
		}),
		e("PExpire", func(rt *rapid.T) c42RefOut {
			k, d := c42RK(rt), c42RD(rt, "expiration")
			return c42RefOut{fmt.Sprintf("%q, %v", k, d), func(a A) { a.PExpire(c42Bg, k, d) }, []string{"pexpire", k, c42GrMs(d)}, 0}
		}),
		e("ExpireAt", func(rt *rapid.T) c42RefOut {
			k := c42RK(rt)
			tm := time.Unix(rapid.SampledFrom([]int64{1700000000, 4102444800, 1}).Draw(rt, "sec"), rapid.SampledFrom([]int64{0, 999000000}).Draw(rt, "nsec"))
			return c42RefOut{fmt.Sprintf("%q, %v", k, tm.UnixNano()), func(a A) { a.ExpireAt(c42Bg, k, tm) }, []string{"expireat", k, c42I(tm.Unix())}, 0}
		}),
		e("PExpireAt", func(rt *rapid.T) c42RefOut {
			k := c42RK(rt)
			tm := time.Unix(rapid.SampledFrom([]int64{1700000000, 4102444800, 1}).Draw(rt, "sec"), rapid.SampledFrom([]int64{0, 999000000, 1500000}).Draw(rt, "nsec"))
			return c42RefOut{fmt.Sprintf("%q, %v", k, tm.UnixNano()), func(a A) { a.PExpireAt(c42Bg, k, tm) }, []string{"pexpireat", k, c42I(tm.UnixNano() / int64(time.Millisecond))}, 0}
		}),
		e("Rename", func(rt *rapid.T) c42RefOut {
			k, n := c42RK(rt), c42RK(rt)
			return c42RefOut{fmt.Sprintf("%q, %q", k, n), func(a A) { a.Rename(c42Bg, k, n) }, []string{"rename", k, n}, 0}
		}),
		e("Copy", func(rt *rapid.T) c42RefOut {
			k, n, db, rep := c42RK(rt), c42RK(rt), rapid.Int64Range(0, 15).Draw(rt, "db"), rapid.Bool().Draw(rt, "replace")
			want := []string{"copy", k, n, "DB", c42I(db)}
			if rep {
				want = append(want, "REPLACE")
			}
			return c42RefOut{fmt.Sprintf("%q, %q, %d, %v", k, n, db, rep), func(a A) { a.Copy(c42Bg, k, n, db, rep) }, want, 0}
		}),
		e("Scan", func(rt *rapid.T) c42RefOut {
			cur, m, n := rapid.SampledFrom([]uint64{0, 17, 1 << 40}).Draw(rt, "cursor"), rapid.SampledFrom([]string{"", "*", "user:*", "a b"}).Draw(rt, "match"), rapid.SampledFrom([]int64{0, 10, 1000, -1}).Draw(rt, "count")
			return c42RefOut{fmt.Sprintf("%d, %q, %d", cur, m, n), func(a A) { a.Scan(c42Bg, cur, m, n) }, c42Cat("scan", strconv.FormatUint(cur, 10), scanTail(m, n)), 0}
		}),
		e("SScan/HScan/ZScan", func(rt *rapid.T) c42RefOut {
			k, cur, m, n := c42RK(rt), rapid.SampledFrom([]uint64{0, 17}).Draw(rt, "cursor"), rapid.SampledFrom([]string{"", "*", "f:*"}).Draw(rt, "match"), rapid.SampledFrom([]int64{0, 10, -1}).Draw(rt, "count")
			which := rapid.SampledFrom([]string{"sscan", "hscan", "zscan"}).Draw(rt, "which")
			call := func(a A) { a.SScan(c42Bg, k, cur, m, n) }
			if which == "hscan" {
				call = func(a A) { a.HScan(c42Bg, k, cur, m, n) }
			} else if which == "zscan" {
				call = func(a A) { a.ZScan(c42Bg, k, cur, m, n) }
			}
			return c42RefOut{fmt.Sprintf("%s %q, %d, %q, %d", which, k, cur, m, n), call, c42Cat(which, k, strconv.FormatUint(cur, 10), scanTail(m, n)), 0}
		}),
		e("Sort", func(rt *rapid.T) c42RefOut {
			k := c42RK(rt)
			var s rueidiscompat.Sort
			want := []string{"sort", k}
			if rapid.Bool().Draw(rt, "By") {
				s.By = rapid.SampledFrom([]string{"weight_*", "nosort", "w_*->f"}).Draw(rt, "by")
				want = append(want, "by", s.By)
			}
			if rapid.Bool().Draw(rt, "Limit") {
				s.Offset, s.Count = rapid.SampledFrom([]int64{0, 2}).Draw(rt, "offset"), rapid.SampledFrom([]int64{0, 5, -1}).Draw(rt, "count")
			}
			if s.Offset != 0 || s.Count != 0 {
				want = append(want, "limit", c42I(s.Offset), c42I(s.Count))
			}
			s.Get = rapid.SliceOfN(rapid.SampledFrom([]string{"#", "obj_*", "o_*->name"}), 0, 2).Draw(rt, "get")
			for _, g := range s.Get {
				want = append(want, "get", g)
			}
			if s.Order = rapid.SampledFrom([]string{"", "ASC", "DESC"}).Draw(rt, "order"); s.Order != "" {
				want = append(want, s.Order)
			}
			if s.Alpha = rapid.Bool().Draw(rt, "alpha"); s.Alpha {
				want = append(want, "alpha")
			}
			store := rapid.SampledFrom([]string{"", "dst"}).Draw(rt, "store")
			call := func(a A) { a.Sort(c42Bg, k, s) }
			if store != "" {
				call = func(a A) { a.SortStore(c42Bg, k, store, s) }
				want = append(want, "store", store)
			}
			return c42RefOut{fmt.Sprintf("%q, %+v, store=%q", k, s, store), call, want, 0}
		}),
		// ---- hashes
		key1("HGetAll", "hgetall", func(a A, k string) { a.HGetAll(c42Bg, k) }),
		key1("HLen", "hlen", func(a A, k string) { a.HLen(c42Bg, k) }),
		e("HGet", func(rt *rapid.T) c42RefOut {
			k, f := c42RK(rt), c42RS(rt, "field")
			return c42RefOut{fmt.Sprintf("%q, %q", k, f), func(a A) { a.HGet(c42Bg, k, f) }, []string{"hget", k, f}, 0}
		}),
		e("HSet", func(rt *rapid.T) c42RefOut {
			k, v1, v2 := c42RK(rt), c42RAny(rt), c42RS(rt, "v2")
			switch rapid.IntRange(0, 3).Draw(rt, "shape") {
			case 0:
				return c42RefOut{fmt.Sprintf("%q, \"f1\", %#v, \"f2\", %q", k, v1, v2), func(a A) { a.HSet(c42Bg, k, "f1", v1, "f2", v2) }, []string{"hset", k, "f1", c42GrArg(v1), "f2", v2}, 0}
			case 1:
				return c42RefOut{fmt.Sprintf("%q, []string{\"f1\", %q, \"f2\", %q}", k, c42GrArg(v1), v2), func(a A) { a.HSet(c42Bg, k, []string{"f1", c42GrArg(v1), "f2", v2}) }, []string{"hset", k, "f1", c42GrArg(v1), "f2", v2}, 0}
			case 2:
				return c42RefOut{fmt.Sprintf("%q, map[string]any{\"f1\": %#v}", k, v1), func(a A) { a.HSet(c42Bg, k, map[string]any{"f1": v1}) }, []string{"hset", k, "f1", c42GrArg(v1)}, 0}
			}
			return c42RefOut{fmt.Sprintf("%q, []any{\"f1\", %#v}", k, v1), func(a A) { a.HSet(c42Bg, k, []any{"f1", v1}) }, []string{"hset", k, "f1", c42GrArg(v1)}, 0}
		}),
		e("HDel", func(rt *rapid.T) c42RefOut {
			k, fs := c42RK(rt), c42RKeys(rt)
			return c42RefOut{fmt.Sprintf("%q, %q", k, fs), func(a A) { a.HDel(c42Bg, k, fs...) }, c42Cat("hdel", k, fs), 0}
		}),
		e("HMGet", func(rt *rapid.T) c42RefOut {
			k, fs := c42RK(rt), c42RKeys(rt)
			return c42RefOut{fmt.Sprintf("%q, %q", k, fs), func(a A) { a.HMGet(c42Bg, k, fs...) }, c42Cat("hmget", k, fs), 0}
		}),
		e("HIncrBy", func(rt *rapid.T) c42RefOut {
			k, f, n := c42RK(rt), c42RS(rt, "field"), c42RI(rt, "n")
			return c42RefOut{fmt.Sprintf("%q, %q, %d", k, f, n), func(a A) { a.HIncrBy(c42Bg, k, f, n) }, []string{"hincrby", k, f, c42I(n)}, 0}
		}),
		e("HIncrByFloat", func(rt *rapid.T) c42RefOut {
			k, f, x := c42RK(rt), c42RS(rt, "field"), c42RF(rt, "x")
			return c42RefOut{fmt.Sprintf("%q, %q, %v", k, f, x), func(a A) { a.HIncrByFloat(c42Bg, k, f, x) }, []string{"hincrbyfloat", k, f, c42F(x)}, 0}
		}),
		e("HSetNX", func(rt *rapid.T) c42RefOut {
			k, f, v := c42RK(rt), c42RS(rt, "field"), c42RAny(rt)
			return c42RefOut{fmt.Sprintf("%q, %q, %#v", k, f, v), func(a A) { a.HSetNX(c42Bg, k, f, v) }, []string{"hsetnx", k, f, c42GrArg(v)}, 0}
		}),
		// ---- lists
		key1("LLen", "llen", func(a A, k string) { a.LLen(c42Bg, k) }),
		key1("LPop", "lpop", func(a A, k string) { a.LPop(c42Bg, k) }),
		key1("RPop", "rpop", func(a A, k string) { a.RPop(c42Bg, k) }),
		e("LPush/RPush", func(rt *rapid.T) c42RefOut {
			k, vs := c42RK(rt), c42RAnys(rt)
			if rapid.Bool().Draw(rt, "right") {
				return c42RefOut{fmt.Sprintf("rpush %q, %#v", k, vs), func(a A) { a.RPush(c42Bg, k, vs...) }, c42Cat("rpush", k, c42GrArgs(vs)), 0}
			}
			return c42RefOut{fmt.Sprintf("lpush %q, %#v", k, vs), func(a A) { a.LPush(c42Bg, k, vs...) }, c42Cat("lpush", k, c42GrArgs(vs)), 0}
		}),
		e("LRange", func(rt *rapid.T) c42RefOut {
			k, s, en := c42RK(rt), c42RI(rt, "start"), c42RI(rt, "stop")
			return c42RefOut{fmt.Sprintf("%q, %d, %d", k, s, en), func(a A) { a.LRange(c42Bg, k, s, en) }, []string{"lrange", k, c42I(s), c42I(en)}, 0}
		}),
		e("LTrim", func(rt *rapid.T) c42RefOut {
			k, s, en := c42RK(rt), c42RI(rt, "start"), c42RI(rt, "stop")
			return c42RefOut{fmt.Sprintf("%q, %d, %d", k, s, en), func(a A) { a.LTrim(c42Bg, k, s, en) }, []string{"ltrim", k, c42I(s), c42I(en)}, 0}
		}),
		e("LIndex", func(rt *rapid.T) c42RefOut {
			k, i := c42RK(rt), c42RI(rt, "index")
			return c42RefOut{fmt.Sprintf("%q, %d", k, i), func(a A) { a.LIndex(c42Bg, k, i) }, []string{"lindex", k, c42I(i)}, 0}
		}),
		e("LSet", func(rt *rapid.T) c42RefOut {
			k, i, v := c42RK(rt), c42RI(rt, "index"), c42RAny(rt)
			return c42RefOut{fmt.Sprintf("%q, %d, %#v", k, i, v), func(a A) { a.LSet(c42Bg, k, i, v) }, []string{"lset", k, c42I(i), c42GrArg(v)}, 0}
		}),
		e("LRem", func(rt *rapid.T) c42RefOut {
			k, n, v := c42RK(rt), c42RI(rt, "count"), c42RAny(rt)
			return c42RefOut{fmt.Sprintf("%q, %d, %#v", k, n, v), func(a A) { a.LRem(c42Bg, k, n, v) }, []string{"lrem", k, c42I(n), c42GrArg(v)}, 0}
		}),
		e("LInsert", func(rt *rapid.T) c42RefOut {
			k, op, p, v := c42RK(rt), rapid.SampledFrom([]string{"BEFORE", "AFTER"}).Draw(rt, "op"), c42RAny(rt), c42RAny(rt)
			return c42RefOut{fmt.Sprintf("%q, %q, %#v, %#v", k, op, p, v), func(a A) { a.LInsert(c42Bg, k, op, p, v) }, []string{"linsert", k, op, c42GrArg(p), c42GrArg(v)}, 0}
		}),
		e("LPos", func(rt *rapid.T) c42RefOut {
			k, v := c42RK(rt), c42RS(rt, "value")
			la := rueidiscompat.LPosArgs{Rank: rapid.SampledFrom([]int64{0, 1, -2}).Draw(rt, "rank"), MaxLen: rapid.SampledFrom([]int64{0, 100}).Draw(rt, "maxlen")}
			want := []string{"lpos", k, v}
			if la.Rank != 0 {
				want = append(want, "rank", c42I(la.Rank))
			}
			if la.MaxLen != 0 {
				want = append(want, "maxlen", c42I(la.MaxLen))
			}
			return c42RefOut{fmt.Sprintf("%q, %q, %+v", k, v, la), func(a A) { a.LPos(c42Bg, k, v, la) }, want, 0}
		}),
		e("BLPop/BRPop", func(rt *rapid.T) c42RefOut {
			d, ks := rapid.SampledFrom([]time.Duration{0, time.Second, 5 * time.Second, time.Minute}).Draw(rt, "timeout"), c42RKeys(rt)
			if rapid.Bool().Draw(rt, "right") {
				return c42RefOut{fmt.Sprintf("brpop %v, %q", d, ks), func(a A) { a.BRPop(c42Bg, d, ks...) }, c42Cat("brpop", ks, c42GrSec(d)), 0}
			}
			return c42RefOut{fmt.Sprintf("blpop %v, %q", d, ks), func(a A) { a.BLPop(c42Bg, d, ks...) }, c42Cat("blpop", ks, c42GrSec(d)), 0}
		}),
		// ---- sets
		key1("SMembers", "smembers", func(a A, k string) { a.SMembers(c42Bg, k) }),
		key1("SCard", "scard", func(a A, k string) { a.SCard(c42Bg, k) }),
		e("SAdd/SRem", func(rt *rapid.T) c42RefOut {
			k, vs := c42RK(rt), c42RAnys(rt)
			if rapid.Bool().Draw(rt, "rem") {
				return c42RefOut{fmt.Sprintf("srem %q, %#v", k, vs), func(a A) { a.SRem(c42Bg, k, vs...) }, c42Cat("srem", k, c42GrArgs(vs)), 0}
			}
			return c42RefOut{fmt.Sprintf("sadd %q, %#v", k, vs), func(a A) { a.SAdd(c42Bg, k, vs...) }, c42Cat("sadd", k, c42GrArgs(vs)), 0}
		}),
		e("SIsMember", func(rt *rapid.T) c42RefOut {
			k, v := c42RK(rt), c42RAny(rt)
			return c42RefOut{fmt.Sprintf("%q, %#v", k, v), func(a A) { a.SIsMember(c42Bg, k, v) }, []string{"sismember", k, c42GrArg(v)}, 0}
		}),
		e("SPopN/SRandMemberN", func(rt *rapid.T) c42RefOut {
			k, n := c42RK(rt), rapid.SampledFrom([]int64{0, 1, 5, -3}).Draw(rt, "count")
			if rapid.Bool().Draw(rt, "rand") {
				return c42RefOut{fmt.Sprintf("srandmember %q, %d", k, n), func(a A) { a.SRandMemberN(c42Bg, k, n) }, []string{"srandmember", k, c42I(n)}, 0}
			}
			return c42RefOut{fmt.Sprintf("spop %q, %d", k, n), func(a A) { a.SPopN(c42Bg, k, n) }, []string{"spop", k, c42I(n)}, 0}
		}),
		// ---- sorted sets
		key1("ZCard", "zcard", func(a A, k string) { a.ZCard(c42Bg, k) }),
		e("ZAdd*", func(rt *rapid.T) c42RefOut {
			k := c42RK(rt)
			zs, flat := zmembers(rt)
			switch rapid.SampledFrom([]string{"", "nx", "xx", "gt", "lt"}).Draw(rt, "variant") {
			case "nx":
				return c42RefOut{fmt.Sprintf("ZAddNX %q, %+v", k, zs), func(a A) { a.ZAddNX(c42Bg, k, zs...) }, c42Cat("zadd", k, "nx", flat), 0}
			case "xx":
				return c42RefOut{fmt.Sprintf("ZAddXX %q, %+v", k, zs), func(a A) { a.ZAddXX(c42Bg, k, zs...) }, c42Cat("zadd", k, "xx", flat), 0}
			case "gt":
				return c42RefOut{fmt.Sprintf("ZAddGT %q, %+v", k, zs), func(a A) { a.ZAddGT(c42Bg, k, zs...) }, c42Cat("zadd", k, "gt", flat), 0}
			case "lt":
				return c42RefOut{fmt.Sprintf("ZAddLT %q, %+v", k, zs), func(a A) { a.ZAddLT(c42Bg, k, zs...) }, c42Cat("zadd", k, "lt", flat), 0}
			}
			return c42RefOut{fmt.Sprintf("ZAdd %q, %+v", k, zs), func(a A) { a.ZAdd(c42Bg, k, zs...) }, c42Cat("zadd", k, flat), 0}
		}),
		e("ZAddArgs", func(rt *rapid.T) c42RefOut {
			k := c42RK(rt)
			zs, flat := zmembers(rt)
			za := rueidiscompat.ZAddArgs{Members: zs, NX: rapid.Bool().Draw(rt, "NX"), XX: rapid.Bool().Draw(rt, "XX"), GT: rapid.Bool().Draw(rt, "GT"), LT: rapid.Bool().Draw(rt, "LT"), Ch: rapid.Bool().Draw(rt, "Ch")}
			want := []string{"zadd", k}
			if za.NX {
				want = append(want, "nx")
			} else {
				if za.XX {
					want = append(want, "xx")
				}
				if za.GT {
					want = append(want, "gt")
				} else if za.LT {
					want = append(want, "lt")
				}
			}
			if za.Ch {
				want = append(want, "ch")
			}
			incr := rapid.Bool().Draw(rt, "incr")
			if incr {
				za.Members, flat = zs[:1], flat[:2]
				want = append(want, "incr")
			}
			want = append(want, flat...)
			if incr {
				return c42RefOut{fmt.Sprintf("ZAddArgsIncr %q, %+v", k, za), func(a A) { a.ZAddArgsIncr(c42Bg, k, za) }, want, 0}
			}
			return c42RefOut{fmt.Sprintf("%q, %+v", k, za), func(a A) { a.ZAddArgs(c42Bg, k, za) }, want, 0}
		}),
		e("ZIncrBy", func(rt *rapid.T) c42RefOut {
			k, f, m := c42RK(rt), c42RF(rt, "incr"), c42RS(rt, "member")
			return c42RefOut{fmt.Sprintf("%q, %v, %q", k, f, m), func(a A) { a.ZIncrBy(c42Bg, k, f, m) }, []string{"zincrby", k, c42F(f), m}, 0}
		}),
		e("ZScore/ZRank", func(rt *rapid.T) c42RefOut {
			k, m := c42RK(rt), c42RS(rt, "member")
			if rapid.Bool().Draw(rt, "rank") {
				return c42RefOut{fmt.Sprintf("zrank %q, %q", k, m), func(a A) { a.ZRank(c42Bg, k, m) }, []string{"zrank", k, m}, 0}
			}
			return c42RefOut{fmt.Sprintf("zscore %q, %q", k, m), func(a A) { a.ZScore(c42Bg, k, m) }, []string{"zscore", k, m}, 0}
		}),
		e("ZRem", func(rt *rapid.T) c42RefOut {
			k, vs := c42RK(rt), c42RAnys(rt)
			return c42RefOut{fmt.Sprintf("%q, %#v", k, vs), func(a A) { a.ZRem(c42Bg, k, vs...) }, c42Cat("zrem", k, c42GrArgs(vs)), 0}
		}),
		e("ZCount", func(rt *rapid.T) c42RefOut {
			k := c42RK(rt)
			o, _ := rangeBy(rt)
			return c42RefOut{fmt.Sprintf("%q, %q, %q", k, o.Min, o.Max), func(a A) { a.ZCount(c42Bg, k, o.Min, o.Max) }, []string{"zcount", k, o.Min, o.Max}, 0}
		}),
		e("ZRange/ZRevRange[WithScores]", func(rt *rapid.T) c42RefOut {
			k, s, en := c42RK(rt), c42RI(rt, "start"), c42RI(rt, "stop")
			switch rapid.IntRange(0, 3).Draw(rt, "variant") {
			case 0:
				return c42RefOut{fmt.Sprintf("ZRange %q, %d, %d", k, s, en), func(a A) { a.ZRange(c42Bg, k, s, en) }, []string{"zrange", k, c42I(s), c42I(en)}, 0}
			case 1:
				return c42RefOut{fmt.Sprintf("ZRangeWithScores %q, %d, %d", k, s, en), func(a A) { a.ZRangeWithScores(c42Bg, k, s, en) }, []string{"zrange", k, c42I(s), c42I(en), "withscores"}, 0}
			case 2:
				return c42RefOut{fmt.Sprintf("ZRevRange %q, %d, %d", k, s, en), func(a A) { a.ZRevRange(c42Bg, k, s, en) }, []string{"zrevrange", k, c42I(s), c42I(en)}, 0}
			}
			return c42RefOut{fmt.Sprintf("ZRevRangeWithScores %q, %d, %d", k, s, en), func(a A) { a.ZRevRangeWithScores(c42Bg, k, s, en) }, []string{"zrevrange", k, c42I(s), c42I(en), "withscores"}, 0}
		}),
		e("ZRangeByScore/Lex family", func(rt *rapid.T) c42RefOut {
			k := c42RK(rt)
			o, lim := rangeBy(rt)
			switch rapid.IntRange(0, 4).Draw(rt, "variant") {
			case 0:
				return c42RefOut{fmt.Sprintf("ZRangeByScore %q, %+v", k, o), func(a A) { a.ZRangeByScore(c42Bg, k, o) }, c42Cat("zrangebyscore", k, o.Min, o.Max, lim), 0}
			case 1:
				return c42RefOut{fmt.Sprintf("ZRangeByScoreWithScores %q, %+v", k, o), func(a A) { a.ZRangeByScoreWithScores(c42Bg, k, o) }, c42Cat("zrangebyscore", k, o.Min, o.Max, "withscores", lim), 0}
			case 2:
				return c42RefOut{fmt.Sprintf("ZRangeByLex %q, %+v", k, o), func(a A) { a.ZRangeByLex(c42Bg, k, o) }, c42Cat("zrangebylex", k, o.Min, o.Max, lim), 0}
			case 3:
				return c42RefOut{fmt.Sprintf("ZRevRangeByScore %q, %+v", k, o), func(a A) { a.ZRevRangeByScore(c42Bg, k, o) }, c42Cat("zrevrangebyscore", k, o.Max, o.Min, lim), 0}
			}
			return c42RefOut{fmt.Sprintf("ZRevRangeByLex %q, %+v", k, o), func(a A) { a.ZRevRangeByLex(c42Bg, k, o) }, c42Cat("zrevrangebylex", k, o.Max, o.Min, lim), 0}
		}),
		e("ZRangeArgs", func(rt *rapid.T) c42RefOut {
			z := rueidiscompat.ZRangeArgs{Key: c42RK(rt), ByScore: rapid.Bool().Draw(rt, "ByScore"), ByLex: rapid.Bool().Draw(rt, "ByLex"), Rev: rapid.Bool().Draw(rt, "Rev")}
			var start, stop string
			switch {
			case z.ByScore:
				start, stop = rapid.SampledFrom([]string{"-inf", "(1", "0"}).Draw(rt, "start"), rapid.SampledFrom([]string{"+inf", "5", "(10"}).Draw(rt, "stop")
				z.Start, z.Stop = start, stop
			case z.ByLex:
				start, stop = rapid.SampledFrom([]string{"-", "[a", "(b"}).Draw(rt, "start"), rapid.SampledFrom([]string{"+", "[z"}).Draw(rt, "stop")
				z.Start, z.Stop = start, stop
			default:
				a, b := rapid.SampledFrom([]int64{0, 1, -3}).Draw(rt, "start"), rapid.SampledFrom([]int64{-1, 10}).Draw(rt, "stop")
				if rapid.Bool().Draw(rt, "asInt") {
					z.Start, z.Stop = int(a), int(b)
				} else {
					z.Start, z.Stop = a, b
				}
				start, stop = c42I(a), c42I(b)
			}
			if (z.ByScore || z.ByLex) && rapid.Bool().Draw(rt, "limit") {
				z.Offset, z.Count = rapid.SampledFrom([]int64{0, 2}).Draw(rt, "offset"), rapid.SampledFrom([]int64{0, 5, -1}).Draw(rt, "count")
			}
			want := []string{"zrange", z.Key}
			if z.Rev && (z.ByScore || z.ByLex) {
				want = append(want, stop, start)
			} else {
				want = append(want, start, stop)
			}
			if z.ByScore {
				want = append(want, "byscore")
			} else if z.ByLex {
				want = append(want, "bylex")
			}
			if z.Rev {
				want = append(want, "rev")
			}
			if z.Offset != 0 || z.Count != 0 {
				want = append(want, "limit", c42I(z.Offset), c42I(z.Count))
			}
			switch rapid.IntRange(0, 2).Draw(rt, "variant") {
			case 1:
				return c42RefOut{fmt.Sprintf("ZRangeArgsWithScores %+v", z), func(a A) { a.ZRangeArgsWithScores(c42Bg, z) }, append(want, "withscores"), 0}
			case 2:
				want = append([]string{"zrangestore", "dst"}, want[1:]...)
				return c42RefOut{fmt.Sprintf("ZRangeStore \"dst\", %+v", z), func(a A) { a.ZRangeStore(c42Bg, "dst", z) }, want, 0}
			}
			return c42RefOut{fmt.Sprintf("%+v", z), func(a A) { a.ZRangeArgs(c42Bg, z) }, want, 0}
		}),
		e("ZInterStore/ZUnionStore", func(rt *rapid.T) c42RefOut {
			dst := c42RK(rt)
			st := rueidiscompat.ZStore{Keys: c42RKeys(rt)}
			tail := append([]string{}, st.Keys...)
			if rapid.Bool().Draw(rt, "weights") {
				tail = append(tail, "weights")
				for range st.Keys {
					w := rapid.SampledFrom([]int64{1, 2, 10}).Draw(rt, "w")
					st.Weights = append(st.Weights, w)
					tail = append(tail, c42I(w))
				}
			}
			if st.Aggregate = rapid.SampledFrom([]string{"", "SUM", "MIN", "MAX"}).Draw(rt, "aggregate"); st.Aggregate != "" {
				tail = append(tail, "aggregate", st.Aggregate)
			}
			if rapid.Bool().Draw(rt, "union") {
				return c42RefOut{fmt.Sprintf("ZUnionStore %q, %+v", dst, st), func(a A) { a.ZUnionStore(c42Bg, dst, st) }, c42Cat("zunionstore", dst, strconv.Itoa(len(st.Keys)), tail), 0}
			}
			return c42RefOut{fmt.Sprintf("ZInterStore %q, %+v", dst, st), func(a A) { a.ZInterStore(c42Bg, dst, st) }, c42Cat("zinterstore", dst, strconv.Itoa(len(st.Keys)), tail), 0}
		}),
		// ---- streams
		key1("XLen", "xlen", func(a A, k string) { a.XLen(c42Bg, k) }),
		e("XAdd", func(rt *rapid.T) c42RefOut {
			xa := rueidiscompat.XAddArgs{Stream: c42RK(rt), NoMkStream: rapid.Bool().Draw(rt, "NoMkStream"), Approx: rapid.Bool().Draw(rt, "Approx")}
			want := []string{"xadd", xa.Stream}
			if xa.NoMkStream {
				want = append(want, "nomkstream")
			}
			switch rapid.IntRange(0, 2).Draw(rt, "trim") {
			case 1:
				xa.MaxLen = rapid.SampledFrom([]int64{1, 1000}).Draw(rt, "MaxLen")
				want = append(want, "maxlen")
				if xa.Approx {
					want = append(want, "~")
				}
				want = append(want, c42I(xa.MaxLen))
			case 2:
				xa.MinID = rapid.SampledFrom([]string{"0-1", "1700000000000-0"}).Draw(rt, "MinID")
				want = append(want, "minid")
				if xa.Approx {
					want = append(want, "~")
				}
				want = append(want, xa.MinID)
			}
			if (xa.MaxLen > 0 || xa.MinID != "") && xa.Approx && rapid.Bool().Draw(rt, "limit") {
				xa.Limit = rapid.SampledFrom([]int64{10, 100}).Draw(rt, "Limit")
				want = append(want, "limit", c42I(xa.Limit))
			}
			if xa.ID = rapid.SampledFrom([]string{"", "*", "1-1", "1700000000000-*"}).Draw(rt, "ID"); xa.ID != "" {
				want = append(want, xa.ID)
			} else {
				want = append(want, "*")
			}
			v := c42RAny(rt)
			switch rapid.IntRange(0, 3).Draw(rt, "values") {
			case 0:
				xa.Values = []string{"f1", c42GrArg(v), "f2", "x"}
				want = append(want, "f1", c42GrArg(v), "f2", "x")
			case 1:
				xa.Values = []any{"f1", v}
				want = append(want, "f1", c42GrArg(v))
			case 2:
				xa.Values = map[string]any{"f1": v}
				want = append(want, "f1", c42GrArg(v))
			default:
				xa.Values = map[string]string{"f1": c42GrArg(v)}
				want = append(want, "f1", c42GrArg(v))
			}
			return c42RefOut{fmt.Sprintf("%+v", xa), func(a A) { a.XAdd(c42Bg, xa) }, want, 0}
		}),
		e("XRead", func(rt *rapid.T) c42RefOut {
			ks := c42RKeys(rt)
			streams := append([]string{}, ks...)
			for range ks {
				streams = append(streams, rapid.SampledFrom([]string{"0", "$", "1-1"}).Draw(rt, "id"))
			}
			xr := rueidiscompat.XReadArgs{Streams: streams, Count: rapid.SampledFrom([]int64{0, 1, 100}).Draw(rt, "Count"), Block: rapid.SampledFrom([]time.Duration{-1, 0, 100 * time.Millisecond, 2 * time.Second}).Draw(rt, "Block")}
			want := []string{"xread"}
			if xr.Count > 0 {
				want = append(want, "count", c42I(xr.Count))
			}
			if xr.Block >= 0 {
				want = append(want, "block", c42I(int64(xr.Block/time.Millisecond)))
			}
			want = append(append(want, "streams"), streams...)
			return c42RefOut{fmt.Sprintf("%+v", xr), func(a A) { a.XRead(c42Bg, xr) }, want, 0}
		}),
		e("XRange/XRevRange[N]", func(rt *rapid.T) c42RefOut {
			k, s, en, n := c42RK(rt), rapid.SampledFrom([]string{"-", "1-1", "(1-1"}).Draw(rt, "start"), rapid.SampledFrom([]string{"+", "9-9"}).Draw(rt, "stop"), rapid.SampledFrom([]int64{1, 10}).Draw(rt, "count")
			switch rapid.IntRange(0, 3).Draw(rt, "variant") {
			case 0:
				return c42RefOut{fmt.Sprintf("XRange %q, %q, %q", k, s, en), func(a A) { a.XRange(c42Bg, k, s, en) }, []string{"xrange", k, s, en}, 0}
			case 1:
				return c42RefOut{fmt.Sprintf("XRangeN %q, %q, %q, %d", k, s, en, n), func(a A) { a.XRangeN(c42Bg, k, s, en, n) }, []string{"xrange", k, s, en, "count", c42I(n)}, 0}
			case 2:
				return c42RefOut{fmt.Sprintf("XRevRange %q, %q, %q", k, en, s), func(a A) { a.XRevRange(c42Bg, k, en, s) }, []string{"xrevrange", k, en, s}, 0}
			}
			return c42RefOut{fmt.Sprintf("XRevRangeN %q, %q, %q, %d", k, en, s, n), func(a A) { a.XRevRangeN(c42Bg, k, en, s, n) }, []string{"xrevrange", k, en, s, "count", c42I(n)}, 0}
		}),
		e("XDel/XAck", func(rt *rapid.T) c42RefOut {
			k, ids := c42RK(rt), rapid.SliceOfN(rapid.SampledFrom([]string{"1-1", "2-0", "1700000000000-5"}), 1, 3).Draw(rt, "ids")
			if rapid.Bool().Draw(rt, "ack") {
				g := c42RS(rt, "group")
				return c42RefOut{fmt.Sprintf("XAck %q, %q, %q", k, g, ids), func(a A) { a.XAck(c42Bg, k, g, ids...) }, c42Cat("xack", k, g, ids), 0}
			}
			return c42RefOut{fmt.Sprintf("XDel %q, %q", k, ids), func(a A) { a.XDel(c42Bg, k, ids...) }, c42Cat("xdel", k, ids), 0}
		}),
		e("XTrimMaxLen[Approx]", func(rt *rapid.T) c42RefOut {
			k, n := c42RK(rt), rapid.SampledFrom([]int64{0, 1, 1000}).Draw(rt, "maxLen")
			if rapid.Bool().Draw(rt, "approx") {
				lim := rapid.SampledFrom([]int64{0, 10}).Draw(rt, "limit")
				want := []string{"xtrim", k, "maxlen", "~", c42I(n)}
				if lim > 0 {
					want = append(want, "limit", c42I(lim))
				}
				return c42RefOut{fmt.Sprintf("XTrimMaxLenApprox %q, %d, %d", k, n, lim), func(a A) { a.XTrimMaxLenApprox(c42Bg, k, n, lim) }, want, 0}
			}
			return c42RefOut{fmt.Sprintf("XTrimMaxLen %q, %d", k, n), func(a A) { a.XTrimMaxLen(c42Bg, k, n) }, []string{"xtrim", k, "maxlen", c42I(n)}, 0}
		}),
		e("XGroupCreate[MkStream]", func(rt *rapid.T) c42RefOut {
			k, g, s := c42RK(rt), c42RS(rt, "group"), rapid.SampledFrom([]string{"$", "0", "1-1"}).Draw(rt, "start")
			if rapid.Bool().Draw(rt, "mkstream") {
				return c42RefOut{fmt.Sprintf("XGroupCreateMkStream %q, %q, %q", k, g, s), func(a A) { a.XGroupCreateMkStream(c42Bg, k, g, s) }, []string{"xgroup", "create", k, g, s, "mkstream"}, 0}
			}
			return c42RefOut{fmt.Sprintf("XGroupCreate %q, %q, %q", k, g, s), func(a A) { a.XGroupCreate(c42Bg, k, g, s) }, []string{"xgroup", "create", k, g, s}, 0}
		}),
		// ---- bitmaps, geo, scripting, pub/sub, connection
		e("BitCount", func(rt *rapid.T) c42RefOut {
			k := c42RK(rt)
			if rapid.IntRange(0, 3).Draw(rt, "nil") == 0 {
				return c42RefOut{fmt.Sprintf("%q, nil", k), func(a A) { a.BitCount(c42Bg, k, nil) }, []string{"bitcount", k}, 0}
			}
			bc := &rueidiscompat.BitCount{Start: c42RI(rt, "start"), End: c42RI(rt, "end"), Unit: rapid.SampledFrom([]string{"", "BYTE", "BIT"}).Draw(rt, "unit")}
			want := []string{"bitcount", k, c42I(bc.Start), c42I(bc.End)}
			if bc.Unit != "" {
				want = append(want, bc.Unit)
			}
			return c42RefOut{fmt.Sprintf("%q, %+v", k, *bc), func(a A) { a.BitCount(c42Bg, k, bc) }, want, 0}
		}),
		e("SetBit/GetBit", func(rt *rapid.T) c42RefOut {
			k, off := c42RK(rt), rapid.SampledFrom([]int64{0, 7, 1 << 20}).Draw(rt, "offset")
			if rapid.Bool().Draw(rt, "get") {
				return c42RefOut{fmt.Sprintf("GetBit %q, %d", k, off), func(a A) { a.GetBit(c42Bg, k, off) }, []string{"getbit", k, c42I(off)}, 0}
			}
			v := rapid.Int64Range(0, 1).Draw(rt, "bit")
			return c42RefOut{fmt.Sprintf("SetBit %q, %d, %d", k, off, v), func(a A) { a.SetBit(c42Bg, k, off, v) }, []string{"setbit", k, c42I(off), c42I(v)}, 0}
		}),
		e("GeoAdd", func(rt *rapid.T) c42RefOut {
			k := c42RK(rt)
			loc := rueidiscompat.GeoLocation{Name: c42RS(rt, "name"), Longitude: c42RF(rt, "lon"), Latitude: c42RF(rt, "lat")}
			return c42RefOut{fmt.Sprintf("%q, %+v", k, loc), func(a A) { a.GeoAdd(c42Bg, k, loc) }, []string{"geoadd", k, c42F(loc.Longitude), c42F(loc.Latitude), loc.Name}, 0}
		}),
		e("GeoDist", func(rt *rapid.T) c42RefOut {
			k, m1, m2, u := c42RK(rt), c42RS(rt, "m1"), c42RS(rt, "m2"), rapid.SampledFrom([]string{"", "m", "km", "mi", "ft"}).Draw(rt, "unit")
			wu := u
			if wu == "" {
				wu = "km"
			}
			return c42RefOut{fmt.Sprintf("%q, %q, %q, %q", k, m1, m2, u), func(a A) { a.GeoDist(c42Bg, k, m1, m2, u) }, []string{"geodist", k, m1, m2, wu}, 0}
		}),
		e("GeoSearch", func(rt *rapid.T) c42RefOut {
			k := c42RK(rt)
			q := rueidiscompat.GeoSearchQuery{}
			want := []string{"geosearch", k}
			if rapid.Bool().Draw(rt, "frommember") {
				q.Member = rapid.SampledFrom([]string{"Palermo", "a b"}).Draw(rt, "member")
				want = append(want, "frommember", q.Member)
			} else {
				q.Longitude, q.Latitude = c42RF(rt, "lon"), c42RF(rt, "lat")
				want = append(want, "fromlonlat", c42F(q.Longitude), c42F(q.Latitude))
			}
			if rapid.Bool().Draw(rt, "byradius") {
				q.Radius = rapid.SampledFrom([]float64{1, 200, 0.5}).Draw(rt, "radius")
				q.RadiusUnit = rapid.SampledFrom([]string{"", "m", "km", "mi"}).Draw(rt, "runit")
				u := q.RadiusUnit
				if u == "" {
					u = "km"
				}
				want = append(want, "byradius", c42F(q.Radius), u)
			} else {
				q.BoxWidth, q.BoxHeight = rapid.SampledFrom([]float64{1, 400}).Draw(rt, "w"), rapid.SampledFrom([]float64{2, 0.5}).Draw(rt, "h")
				q.BoxUnit = rapid.SampledFrom([]string{"", "m", "km", "ft"}).Draw(rt, "bunit")
				u := q.BoxUnit
				if u == "" {
					u = "km"
				}
				want = append(want, "bybox", c42F(q.BoxWidth), c42F(q.BoxHeight), u)
			}
			if q.Sort = rapid.SampledFrom([]string{"", "ASC", "DESC"}).Draw(rt, "sort"); q.Sort != "" {
				want = append(want, q.Sort)
			}
			if rapid.Bool().Draw(rt, "count") {
				q.Count = rapid.SampledFrom([]int64{1, 10}).Draw(rt, "n")
				want = append(want, "count", c42I(q.Count))
				if q.CountAny = rapid.Bool().Draw(rt, "any"); q.CountAny {
					want = append(want, "any")
				}
			}
			return c42RefOut{fmt.Sprintf("%q, %+v", k, q), func(a A) { a.GeoSearch(c42Bg, k, q) }, want, 0}
		}),
		e("Eval/EvalSha", func(rt *rapid.T) c42RefOut {
			script, ks := rapid.SampledFrom([]string{"return 1", "return {KEYS[1],ARGV[1]}", "e0e1f9fabfc9d4800c877a703b823ac0578ff8db"}).Draw(rt, "script"), rapid.SliceOfN(rapid.SampledFrom([]string{"k", "k2", "a b"}), 0, 2).Draw(rt, "keys")
			vs := c42RAnys(rt)
			if rapid.Bool().Draw(rt, "noargs") {
				vs = nil
			}
			if rapid.Bool().Draw(rt, "sha") {
				return c42RefOut{fmt.Sprintf("EvalSha %q, %q, %#v", script, ks, vs), func(a A) { a.EvalSha(c42Bg, script, ks, vs...) }, c42Cat("evalsha", script, strconv.Itoa(len(ks)), ks, c42GrArgs(vs)), 0}
			}
			return c42RefOut{fmt.Sprintf("Eval %q, %q, %#v", script, ks, vs), func(a A) { a.Eval(c42Bg, script, ks, vs...) }, c42Cat("eval", script, strconv.Itoa(len(ks)), ks, c42GrArgs(vs)), 0}
		}),
		e("Publish", func(rt *rapid.T) c42RefOut {
			ch, v := c42RS(rt, "channel"), c42RAny(rt)
			return c42RefOut{fmt.Sprintf("%q, %#v", ch, v), func(a A) { a.Publish(c42Bg, ch, v) }, []string{"publish", ch, c42GrArg(v)}, 0}
		}),
		e("ClientKill", func(rt *rapid.T) c42RefOut {
			ip := rapid.SampledFrom([]string{"127.0.0.1:6379", "[::1]:7000"}).Draw(rt, "ipPort")
			return c42RefOut{fmt.Sprintf("%q", ip), func(a A) { a.ClientKill(c42Bg, ip) }, []string{"client", "kill", ip}, 0}
		}),
		e("ClientKillByFilter", func(rt *rapid.T) c42RefOut {
			ks := rapid.SampledFrom([][]string{{"ID", "12"}, {"TYPE", "pubsub", "SKIPME", "no"}, {"ADDR", "127.0.0.1:1"}}).Draw(rt, "filter")
			return c42RefOut{fmt.Sprintf("%q", ks), func(a A) { a.ClientKillByFilter(c42Bg, ks...) }, c42Cat("client", "kill", ks), 0}
		}),
		e("Ping/Echo", func(rt *rapid.T) c42RefOut {
			if rapid.Bool().Draw(rt, "ping") {
				return c42RefOut{"", func(a A) { a.Ping(c42Bg) }, []string{"ping"}, 0}
			}
			v := c42RAny(rt)
			return c42RefOut{fmt.Sprintf("%#v", v), func(a A) { a.Echo(c42Bg, v) }, []string{"echo", c42GrArg(v)}, 0}
		}),
		e("PFAdd/PFCount", func(rt *rapid.T) c42RefOut {
			if rapid.Bool().Draw(rt, "count") {
				ks := c42RKeys(rt)
				return c42RefOut{fmt.Sprintf("PFCount %q", ks), func(a A) { a.PFCount(c42Bg, ks...) }, c42Cat("pfcount", ks), 0}
			}
			k, vs := c42RK(rt), c42RAnys(rt)
			return c42RefOut{fmt.Sprintf("PFAdd %q, %#v", k, vs), func(a A) { a.PFAdd(c42Bg, k, vs...) }, c42Cat("pfadd", k, c42GrArgs(vs)), 0}
		}),
	}
}

// c42RefNormalise drops the optional "=" after MAXLEN / MINID
func c42RefNormalise(argv []string) []string {
	out := make([]string, 0, len(argv))
	for i, a := range argv {
		if a == "=" && i > 0 && (strings.EqualFold(argv[i-1], "MAXLEN") || strings.EqualFold(argv[i-1], "MINID")) {
			continue
		}
		out = append(out, a)
	}
	return out
}

func c42RefEqual(got, want []string, free int) bool {
	got, want = c42RefNormalise(got), c42RefNormalise(want)
	if len(got) != len(want) {
		return false
	}
	if free <= 0 || free > len(got) {
		return c42ArgvEq(got, want)
	}
	if !c42ArgvEq(got[:free], want[:free]) {
		return false
	}
	used := make([]bool, len(want))
	for _, g := range got[free:] {
		found := false
		for j := free; j < len(want); j++ {
			if !used[j] && c42TokenEq(g, want[j]) {
				used[j], found = true, true
				break
			}
		}
		if !found {
			return false
		}
	}
	return true
}

type c42RefCase struct {
	Method string     `json:"method"`
	Args   string     `json:"args"`
	Got    [][]string `json:"adapter_argv"`
	Want   []string   `json:"goredis_argv"`
}

func TestVerif_C42_Reference(t *testing.T) {
	table := c42RefTable()
	names := make([]string, len(table))
	for i, e := range table {
		names[i] = e.Name
	}
	c := stat.For("C42", "goredis-reference").Rule(fmt.Sprintf("hand-written reference of go-redis v9 argv conventions for %d method groups (written from the go-redis sources from memory, go-redis itself is not installed): generated keys/values (empty, binary, ints, floats, bools, bytes), expirations with and without sub-second parts incl. KeepTTL and sub-millisecond, every subset of option-struct fields; the adapter's argv captured by a recording client must equal the reference argv modulo keyword case, numeric spelling, the optional '=' of stream thresholds and the order of SET options; non-trivial = an option or expiration beyond the mandatory arguments is present (argv longer than 3)", len(table)))
	c.Assume("the reference table reflects go-redis v9 (commands.go family) as remembered by its author; entries were limited to conventions stable across v9 releases")
	defer c.Flush()
	c.Extra("methods_compared", len(table))
	c.Extra("methods_compared_list", names)
	rec := &c42Rec{}
	ad := rueidiscompat.NewAdapter(rec)
	explore, exploreN := map[string]string{}, map[string]int{}
	defer func() {
		for k, v := range explore {
			t.Logf("EXPLORE %d x %s", exploreN[k], v)
		}
	}()
	rapid.Check(t, func(rt *rapid.T) {
		e := rapid.SampledFrom(table).Draw(rt, "method")
		out := e.Gen(rt)
		rec.cmds, rec.other = nil, nil
		var panicked any
		func() {
			defer func() { panicked = recover() }()
			out.Call(ad)
		}()
		cs := c42RefCase{Method: e.Name, Args: out.Args, Got: rec.cmds, Want: out.Want}
		if panicked != nil {
			c.Fail(rt, "C42.ref-panic."+e.Name, fmt.Sprintf("%s(%s) panicked: %v", e.Name, out.Args, panicked), cs)
		}
		if len(rec.cmds) != 1 || !c42RefEqual(rec.cmds[0], out.Want, out.Free) {
			id := "C42.differs-from-go-redis." + e.Name
			if os.Getenv("VERIF_C42_EXPLORE") != "" {
				if explore[e.Name] == "" {
					explore[e.Name] = fmt.Sprintf("%s(%s): adapter %q go-redis %q", e.Name, out.Args, rec.cmds, out.Want)
				}
				exploreN[e.Name]++
			} else if !c.Known(id) {
				c.Fail(rt, id, fmt.Sprintf("%s(%s): adapter sends %q, go-redis sends %q", e.Name, out.Args, rec.cmds, out.Want), cs)
			}
			c.Eval(false, nil, "known-difference")
			return
		}
		nt := len(out.Want) > 3
		c.Eval(nt, fmt.Sprintf("%q", rec.cmds[0]), "agree:"+e.Name)
		c.Sample(nt, func() any { return cs })
	})
}
