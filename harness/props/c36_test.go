package props

import (
	"context"
	"encoding/json"
	"fmt"
	"runtime/debug"
	"sort"
	"strconv"
	"strings"
	"testing"
	"time"

	"github.com/redis/rueidis/rueidisprob"
	"pgregory.net/rapid"
	"verif/harness/sim"
	"verifkit/bubble"
	"verifkit/fakeredis"
	"verifkit/resp"
	"verifkit/stat"
)

// ---------------------------------------------------------------------------------------------
// C36: counting Bloom filters track multiplicities without false negatives.
//
// Black box through rueidisprob.NewCountingBloomFilter; the fake server runs the add / remove Lua
// scripts. Two views are checked: the API view (Exists, ExistsMulti, ItemMinCount, ItemMinCountMulti
// against a multiset model) and the server view (HGETALL of the filter hash after every call; the
// counters an item uses are taken from the ARGV of the script call the filter sent for it, so the
// harness needs no hash function of its own).
// ---------------------------------------------------------------------------------------------

type c36Op struct {
	Kind string `json:"kind"` // add addmulti remove removemulti exists existsmulti mincount mincountmulti count delete
	Keys []int  `json:"keys,omitempty"`
}

type c36Plan struct {
	N     uint     `json:"n"`
	Rate  float64  `json:"rate"`
	Items []string `json:"items"` // Go-quoted
	Ops   []c36Op  `json:"ops"`
}

type c36Obs struct {
	Done, Skipped bool
	Err           string
	Bools         []bool
	Singles       []bool
	Counts        []uint64
	SingleCounts  []uint64
	SingleE       string
	Count         uint64
	Hash          map[string]string // HGETALL of the filter hash after the call
	Idx           [][]string        // add*/remove*: the counters of each key, from the script call's ARGV
}

func genC36Plan(rt *rapid.T) c36Plan {
	var p c36Plan
	if rapid.IntRange(0, 9).Draw(rt, "tiny") < 5 {
		// tiny filters: index sets of different items collide
		p.N = rapid.SampledFrom([]uint{1, 2, 3, 4}).Draw(rt, "tinyN")
		p.Rate = rapid.SampledFrom([]float64{0.5, 0.3, 0.6, 0.2, 0.1, 0.4, 0.05}).Draw(rt, "tinyRate")
	} else {
		p.N, p.Rate = probConfig(rt, 1<<40, 0)
	}
	_, k := probSizing(p.N, p.Rate)
	maxItems, maxOps, maxMulti := 16, 30, 6
	if k > 64 {
		maxItems, maxOps, maxMulti = 8, 12, 3
	}
	p.Items = probItems(rt, 1, maxItems)
	nOps := rapid.IntRange(1, maxOps).Draw(rt, "nOps")
	kinds := []string{"add", "add", "add", "add", "addmulti", "addmulti", "remove", "remove", "remove", "removemulti", "removemulti",
		"exists", "exists", "existsmulti", "mincount", "mincount", "mincountmulti", "count", "delete"}
	net := map[int]int{}
	anyKey := func() int { return rapid.IntRange(0, len(p.Items)-1).Draw(rt, "key") }
	held := func() []int {
		var h []int
		for i := range p.Items {
			if net[i] > 0 {
				h = append(h, i)
			}
		}
		return h
	}
	for i := 0; i < nOps; i++ {
		op := c36Op{Kind: rapid.SampledFrom(kinds).Draw(rt, "kind")}
		if op.Kind == "delete" && rapid.IntRange(0, 2).Draw(rt, "reallyDelete") != 1 {
			op.Kind = "add"
		}
		pick := anyKey
		switch op.Kind {
		case "remove", "removemulti":
			// mostly items the model holds (class A), sometimes any item (class B: not added / already removed)
			pick = func() int {
				if h := held(); len(h) > 0 && rapid.IntRange(0, 3).Draw(rt, "removeHeld") != 2 {
					return h[rapid.IntRange(0, len(h)-1).Draw(rt, "heldKey")]
				}
				return anyKey()
			}
		case "exists", "existsmulti", "mincount", "mincountmulti":
			pick = func() int {
				if h := held(); len(h) > 0 && rapid.IntRange(0, 3).Draw(rt, "queryHeld") != 2 {
					return h[rapid.IntRange(0, len(h)-1).Draw(rt, "heldKey")]
				}
				return anyKey()
			}
		}
		switch op.Kind {
		case "add", "remove", "exists", "mincount":
			op.Keys = []int{pick()}
		case "addmulti", "removemulti", "existsmulti", "mincountmulti":
			nk := rapid.IntRange(0, maxMulti).Draw(rt, "nKeys")
			op.Keys = []int{}
			for j := 0; j < nk; j++ {
				key := pick()
				if j > 0 && rapid.IntRange(0, 4).Draw(rt, "dup") == 2 {
					key = op.Keys[rapid.IntRange(0, j-1).Draw(rt, "dupOf")]
				}
				op.Keys = append(op.Keys, key)
				if op.Kind == "removemulti" && net[key] > 0 {
					net[key]--
				}
			}
		}
		switch op.Kind {
		case "add", "addmulti":
			for _, key := range op.Keys {
				net[key]++
			}
		case "remove":
			if net[op.Keys[0]] > 0 {
				net[op.Keys[0]]--
			}
		case "delete":
			net = map[int]int{}
		}
		p.Ops = append(p.Ops, op)
	}
	return p
}

func c36Hash(v resp.Value) map[string]string {
	out := map[string]string{}
	for i := 0; i+1 < len(v.A); i += 2 {
		out[v.A[i].S] = v.A[i+1].S
	}
	return out
}

// probScriptArgs returns the ARGV of the last EVALSHA/EVAL among events.
func probScriptArgs(events []fakeredis.Event) ([]string, bool) {
	for i := len(events) - 1; i >= 0; i-- {
		e := events[i]
		if e.Kind != "recv" || len(e.Argv) < 3 {
			continue
		}
		if n := strings.ToUpper(e.Argv[0]); n != "EVALSHA" && n != "EVAL" && n != "EVALSHA_RO" && n != "EVAL_RO" {
			continue
		}
		nk, err := strconv.Atoi(e.Argv[2])
		if err != nil || 3+nk > len(e.Argv) {
			return nil, false
		}
		return e.Argv[3+nk:], true
	}
	return nil, false
}

func c36Run(t *testing.T, plan c36Plan) (res bubble.Result, ctorErr string, obs []c36Obs, panicked string) {
	obs = make([]c36Obs, len(plan.Ops))
	items := probUnquote(plan.Items)
	_, k := probSizing(plan.N, plan.Rate)
	res = bubble.Run(t, func() {
		w := fakeredis.NewWorld()
		srv := w.NewServer(probAddr)
		client := probClient(w)
		func() {
			defer func() {
				if p := recover(); p != nil {
					panicked = fmt.Sprintf("%v\n%s", p, debug.Stack())
				}
			}()
			f, err := rueidisprob.NewCountingBloomFilter(client, "cbf", plan.N, plan.Rate)
			if err != nil {
				ctorErr = errText(err)
				return
			}
			ctx := context.Background()
			keysOf := func(op c36Op) []string {
				ks := make([]string, len(op.Keys))
				for i, key := range op.Keys {
					ks[i] = items[key]
				}
				return ks
			}
			for i, op := range plan.Ops {
				o := &obs[i]
				mark := len(w.Snapshot())
				var err error
				switch op.Kind {
				case "add":
					err = f.Add(ctx, items[op.Keys[0]])
				case "addmulti":
					err = f.AddMulti(ctx, keysOf(op))
				case "remove":
					err = f.Remove(ctx, items[op.Keys[0]])
				case "removemulti":
					err = f.RemoveMulti(ctx, keysOf(op))
				case "exists":
					var b bool
					b, err = f.Exists(ctx, items[op.Keys[0]])
					o.Bools = []bool{b}
				case "existsmulti":
					ks := keysOf(op)
					o.Bools, err = f.ExistsMulti(ctx, ks)
					for _, key := range ks {
						b, e := f.Exists(ctx, key)
						o.Singles = append(o.Singles, b)
						if e != nil && o.SingleE == "" {
							o.SingleE = errText(e)
						}
					}
				case "mincount":
					var n uint64
					n, err = f.ItemMinCount(ctx, items[op.Keys[0]])
					o.Counts = []uint64{n}
				case "mincountmulti":
					ks := keysOf(op)
					o.Counts, err = f.ItemMinCountMulti(ctx, ks)
					for _, key := range ks {
						n, e := f.ItemMinCount(ctx, key)
						o.SingleCounts = append(o.SingleCounts, n)
						if e != nil && o.SingleE == "" {
							o.SingleE = errText(e)
						}
					}
				case "count":
					o.Count, err = f.Count(ctx)
				case "delete":
					err = f.Delete(ctx)
				}
				o.Err = errText(err)
				switch op.Kind {
				case "add", "addmulti", "remove", "removemulti":
					if args, ok := probScriptArgs(w.Snapshot()[mark:]); ok && k > 0 && len(op.Keys) > 0 {
						if strings.HasPrefix(op.Kind, "add") {
							args = args[1:]
						} else {
							args = args[:len(args)-1]
						}
						if len(args) == len(op.Keys)*int(k) {
							for j := range op.Keys {
								o.Idx = append(o.Idx, append([]string{}, args[j*int(k):(j+1)*int(k)]...))
							}
						}
					}
				}
				o.Hash = c36Hash(srv.Do("HGETALL", "{cbf}:cbf"))
				o.Done = true
			}
		}()
		sim.CallTimeout(time.Minute, client.Close)
		w.Stop()
		time.Sleep(5 * time.Second)
	})
	return
}

func c36Counters(h map[string]string) (map[string]int64, string) {
	out := map[string]int64{}
	for f, v := range h {
		n, err := strconv.ParseInt(v, 10, 64)
		if err != nil {
			return nil, fmt.Sprintf("counter %s holds %q", f, v)
		}
		out[f] = n
	}
	return out, ""
}

func c36Positive(m map[string]int64) string {
	var parts []string
	for f, n := range m {
		if n != 0 {
			parts = append(parts, f+":"+strconv.FormatInt(n, 10))
		}
	}
	sort.Strings(parts)
	return strings.Join(parts, " ")
}

func c36Raw(m map[string]string) string {
	var parts []string
	for f, n := range m {
		parts = append(parts, f+":"+n)
	}
	sort.Strings(parts)
	return strings.Join(parts, " ")
}

func c36Check(c *stat.Collector, rt stat.Fataler, plan c36Plan, res bubble.Result, ctorErr string, obs []c36Obs, panicked string) (nt bool, classes []string, inconclusive bool) {
	cls := map[string]bool{}
	defer func() {
		for name := range cls {
			classes = append(classes, name)
		}
		sort.Strings(classes)
	}()
	m, k := probSizing(plan.N, plan.Rate)
	cfg := fmt.Sprintf("n=%d rate=%v (m=%d counters, k=%d hash functions)", plan.N, plan.Rate, m, k)
	if panicked != "" || res.Panic != nil {
		c.Fail(rt, "C36.no-panic", cfg+": "+panicked+res.String(), plan)
	}
	for _, o := range obs {
		if probUnsupported(o.Err) || probUnsupported(o.SingleE) {
			return false, nil, true
		}
	}
	if res.Deadlock {
		c.Fail(rt, "C36.no-hang", res.String(), plan)
	}
	if ctorErr != "" {
		c.Fail(rt, "C36.accepted-domain", fmt.Sprintf("NewCountingBloomFilter with %s failed: %s", cfg, ctorErr), plan)
	}
	net := map[int]int{}
	idxOf := map[int][]string{}
	removed := map[int]bool{}
	tainted := false
	prev := map[string]string{}
	collisionQuery, underflowNonEmpty, mixedMulti := false, false, false
	shares := func(a, b int) bool {
		for _, x := range idxOf[a] {
			for _, y := range idxOf[b] {
				if x == y {
					return true
				}
			}
		}
		return false
	}
	queried := func(key int) {
		if net[key] > 0 {
			cls["queried-held-item"] = true
			for y := range removed {
				if y != key && shares(key, y) {
					collisionQuery = true
				}
			}
		}
	}
	for i, op := range plan.Ops {
		o := obs[i]
		if !o.Done {
			c.Fail(rt, "C36.no-hang", fmt.Sprintf("op %d (%s) never returned: %s", i, op.Kind, res), plan)
		}
		if o.Skipped {
			continue
		}
		where := fmt.Sprintf("op %d (%s %v) with %s", i, op.Kind, op.Keys, cfg)
		if o.Err != "" || o.SingleE != "" {
			c.Fail(rt, "C36.no-error", fmt.Sprintf("%s failed: %s%s", where, o.Err, o.SingleE), plan)
		}
		cur, bad := c36Counters(o.Hash)
		if bad != "" {
			c.Fail(rt, "C36.no-negative-counter", fmt.Sprintf("%s: afterwards %s", where, bad), plan)
		}
		for f, n := range cur {
			if n < 0 {
				c.Fail(rt, "C36.no-negative-counter", fmt.Sprintf("%s: afterwards counter %s is %d; hash: %s", where, f, n, c36Raw(o.Hash)), plan)
			}
		}
		haveIdx := len(o.Idx) == len(op.Keys) && len(op.Keys) > 0
		switch op.Kind {
		case "add", "addmulti":
			for j, key := range op.Keys {
				net[key]++
				if haveIdx {
					idxOf[key] = o.Idx[j]
				}
			}
			for a := range idxOf {
				for b := range idxOf {
					if a < b && net[a] > 0 && net[b] > 0 && shares(a, b) {
						cls["held-items-share-a-counter"] = true
					}
				}
			}
		case "remove", "removemulti":
			if !haveIdx {
				if len(op.Keys) > 0 && k > 0 {
					c.Fail(rt, "C36.harness", fmt.Sprintf("%s: the script call of the removal was not found in the server log", where), plan)
				}
				break
			}
			// reference on the server's own counters: items are taken in argument order; an item is removed
			// (each of its counters minus one per use) iff none of its counters would become negative
			ref, _ := c36Counters(prev)
			nRemovable, nRefused := 0, 0
			touched := map[string]bool{}
			for j, key := range op.Keys {
				need := map[string]int64{}
				for _, f := range o.Idx[j] {
					need[f]++
				}
				ok := true
				for f, n := range need {
					if ref[f] < n {
						ok = false
					}
				}
				if ok {
					nRemovable++
					for f, n := range need {
						ref[f] -= n
						touched[f] = true
					}
				} else {
					nRefused++
					partial := false
					for f := range need {
						if ref[f] > 0 {
							partial = true
						}
					}
					if partial {
						cls["refused-removal-partly-covered"] = true
					}
					if len(prev) > 0 {
						underflowNonEmpty = true
					}
				}
				if net[key] > 0 {
					net[key]--
					removed[key] = true
					cls["removal-of-held-item"] = true
					if !ok && !tainted {
						c.Fail(rt, "C36.min-count-covers-net", fmt.Sprintf("%s: item %s (position %d) is held %d time(s) by the model but its counters %v do not cover one removal; hash before: %s", where, plan.Items[key], j, net[key]+1, o.Idx[j], c36Raw(prev)), plan)
					}
				} else {
					cls["removal-of-item-not-held"] = true
					if ok {
						// the filter cannot tell this item from the ones that set its counters: a legitimate
						// false-positive removal, after which the premise "only added items are removed" is gone
						tainted = true
						cls["false-positive-removal(model-suspended)"] = true
					}
				}
			}
			if nRemovable > 0 && nRefused > 0 {
				mixedMulti = true
			}
			if nRefused > 0 {
				if nRemovable == 0 {
					if c36Raw(prev) != c36Raw(o.Hash) {
						c.Fail(rt, "C36.underflow-changes-nothing", fmt.Sprintf("%s: no item of the call can be removed without a negative counter (counters per item: %v), yet the hash changed from {%s} to {%s}", where, o.Idx, c36Raw(prev), c36Raw(o.Hash)), plan)
					}
				} else {
					before, _ := c36Counters(prev)
					for f, n := range cur {
						if !touched[f] && n != before[f] {
							c.Fail(rt, "C36.underflow-changes-nothing", fmt.Sprintf("%s: counter %s is used only by items whose removal is refused, yet it went from %d to %d (counters per item: %v; before {%s} after {%s})", where, f, before[f], n, o.Idx, c36Raw(prev), c36Raw(o.Hash)), plan)
						}
					}
				}
			}
			if c36Positive(ref) != c36Positive(cur) {
				c.Fail(rt, "C36.remove-effect", fmt.Sprintf("%s: counters per item %v; before {%s}; expected after removing the removable items in order {%s}; server holds {%s}", where, o.Idx, c36Raw(prev), c36Positive(ref), c36Positive(cur)), plan)
			}
		case "exists":
			queried(op.Keys[0])
			if net[op.Keys[0]] > 0 && !o.Bools[0] && !tainted {
				c.Fail(rt, "C36.no-false-negative", fmt.Sprintf("%s: item %s has net multiplicity %d, Exists reports false; hash {%s}", where, plan.Items[op.Keys[0]], net[op.Keys[0]], c36Raw(o.Hash)), plan)
			}
		case "existsmulti":
			if len(o.Bools) != len(op.Keys) {
				c.Fail(rt, "C36.positional", fmt.Sprintf("%s: ExistsMulti returned %d answers for %d keys", where, len(o.Bools), len(op.Keys)), plan)
			}
			for j, key := range op.Keys {
				queried(key)
				if net[key] > 0 && !o.Bools[j] && !tainted {
					c.Fail(rt, "C36.no-false-negative", fmt.Sprintf("%s: item %s (position %d) has net multiplicity %d, ExistsMulti reports %v; hash {%s}", where, plan.Items[key], j, net[key], o.Bools, c36Raw(o.Hash)), plan)
				}
				if o.Bools[j] != o.Singles[j] {
					c.Fail(rt, "C36.positional", fmt.Sprintf("%s: position %d is %v but Exists of the same item in the same state is %v", where, j, o.Bools[j], o.Singles[j]), plan)
				}
			}
		case "mincount":
			queried(op.Keys[0])
			if o.Counts[0] < uint64(net[op.Keys[0]]) && !tainted {
				c.Fail(rt, "C36.min-count-covers-net", fmt.Sprintf("%s: item %s has net multiplicity %d, ItemMinCount reports %d; hash {%s}", where, plan.Items[op.Keys[0]], net[op.Keys[0]], o.Counts[0], c36Raw(o.Hash)), plan)
			}
		case "mincountmulti":
			if len(o.Counts) != len(op.Keys) {
				c.Fail(rt, "C36.positional", fmt.Sprintf("%s: ItemMinCountMulti returned %d answers for %d keys", where, len(o.Counts), len(op.Keys)), plan)
			}
			for j, key := range op.Keys {
				queried(key)
				if o.Counts[j] < uint64(net[key]) && !tainted {
					c.Fail(rt, "C36.min-count-covers-net", fmt.Sprintf("%s: item %s (position %d) has net multiplicity %d, ItemMinCountMulti reports %v; hash {%s}", where, plan.Items[key], j, net[key], o.Counts, c36Raw(o.Hash)), plan)
				}
				if o.Counts[j] != o.SingleCounts[j] {
					c.Fail(rt, "C36.positional", fmt.Sprintf("%s: position %d is %d but ItemMinCount of the same item in the same state is %d", where, j, o.Counts[j], o.SingleCounts[j]), plan)
				}
			}
		case "delete":
			net, removed, tainted = map[int]int{}, map[int]bool{}, false
			cls["delete"] = true
		}
		// server view of "ItemMinCount never reports less than the net multiplicity", after every call
		if !tainted && k > 0 {
			for key, n := range net {
				for _, f := range idxOf[key] {
					if n > 0 && cur[f] < int64(n) {
						c.Fail(rt, "C36.min-count-covers-net", fmt.Sprintf("%s: afterwards item %s has net multiplicity %d but its counter %s holds %d; hash {%s}", where, plan.Items[key], n, f, cur[f], c36Raw(o.Hash)), plan)
					}
				}
			}
		}
		prev = o.Hash
	}
	switch {
	case k == 1:
		cls["k=1"] = true
	case k <= 8:
		cls["k=2..8"] = true
	default:
		cls["k>8"] = true
	}
	if m <= 16 {
		cls["m<=16counters"] = true
	}
	if collisionQuery {
		cls["query-held-item-after-removal-of-colliding-item"] = true
	}
	if underflowNonEmpty {
		cls["refused-removal-on-non-empty-filter"] = true
	}
	if mixedMulti {
		cls["multi-remove-mixes-removable-and-refused"] = true
	}
	return (collisionQuery || underflowNonEmpty || mixedMulti), nil, false
}

func TestVerif_C36_CountingBloom(t *testing.T) {
	c := stat.For("C36", "counting-bloom").Rule("single client in a synctest bubble against the fake server running the filter's real add/remove Lua scripts; half of the configurations tiny (n 1-4, rate 0.05-0.6: 2-26 counters, index sets collide), the rest over the accepted domain (n 1..10^6, rate in (0,1) incl. 1-10^-15 and 10^-300); histories of 1-30 ops from {Add, AddMulti, Remove, RemoveMulti, Exists, ExistsMulti, ItemMinCount, ItemMinCountMulti, Count, Delete} over 1-16 items, removals aimed 3:1 at items the model holds vs arbitrary items; oracle: multiset model (net>0 => present, min count >= net, also evaluated on HGETALL after every call through the counters named in the script ARGV), no negative counter, a removal the server's counters cannot cover leaves the hash (or, in a mixed RemoveMulti, the counters of the refused items) unchanged, removable items are decremented exactly once per counter use, multi results agree with single results per position; after a false-positive removal of an item the model does not hold the model is suspended until Delete; non-trivial = a held item queried after a colliding item was removed, or a refused removal on a non-empty filter, or a RemoveMulti mixing removable and refused items")
	defer c.Flush()
	rapid.Check(t, func(rt *rapid.T) {
		plan := genC36Plan(rt)
		saveCase("c36", plan)
		res, ctorErr, obs, panicked := c36Run(t, plan)
		if res.Frozen {
			c.Inconclusive("virtual-clock-freeze")
			return
		}
		nt, classes, inconclusive := c36Check(c, rt, plan, res, ctorErr, obs, panicked)
		if inconclusive {
			c.Inconclusive("lua-unsupported")
			return
		}
		key, _ := json.Marshal(plan)
		c.Eval(nt, string(key), classes...)
		c.Sample(nt, func() any { return plan })
	})
}
