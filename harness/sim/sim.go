// Package sim holds what the black-box (public API only) property tests share: client options
// wired to a fakeredis World, result matching against generated reply trees, call recording.
package sim

import (
	"context"
	"crypto/tls"
	"errors"
	"fmt"
	"math"
	"net"
	"strconv"
	"strings"
	"sync"
	"time"

	"github.com/redis/rueidis"
	"verifkit/fakeredis"
	"verifkit/resp"
)

// Dialer routes the client's dials to the fake servers of w.
func Dialer(w *fakeredis.World) func(context.Context, string, *net.Dialer, *tls.Config) (net.Conn, error) {
	return func(ctx context.Context, addr string, d *net.Dialer, cfg *tls.Config) (net.Conn, error) {
		if err := ctx.Err(); err != nil {
			return nil, err
		}
		return w.Dial(addr)
	}
}

// Option returns a ClientOption for the given addresses with small buffers (a leaked client
// must not pin megabytes) and the keep-alive ping disabled so that a hung call shows up as a
// bubble deadlock instead of an endless stream of virtual-time pings.
func Option(w *fakeredis.World, addrs ...string) rueidis.ClientOption {
	return rueidis.ClientOption{
		InitAddress:         addrs,
		DialCtxFn:           Dialer(w),
		ReadBufferEachConn:  4096,
		WriteBufferEachConn: 4096,
		CacheSizeEachConn:   1 << 20,
		Dialer:              net.Dialer{KeepAlive: -1, Timeout: 2 * time.Second},
	}
}

// Match compares a reply obtained through the public API with the generated value tree.
// Attributes are invisible through the public API and ignored; arrays and sets are not told apart.
func Match(m rueidis.RedisMessage, v resp.Value) error {
	switch v.T {
	case '+', '$', '=', '(':
		s, err := m.ToString()
		if err != nil {
			return fmt.Errorf("want string %q, got error %v (%s)", short(v.S), err, m.String())
		}
		if s != v.S {
			return fmt.Errorf("want string %q, got %q", short(v.S), short(s))
		}
	case ':':
		i, err := m.ToInt64()
		if err != nil || i != v.I {
			return fmt.Errorf("want integer %d, got %d,%v", v.I, i, err)
		}
	case '#':
		b, err := m.ToBool()
		if err != nil || b != (v.I == 1) {
			return fmt.Errorf("want bool %v, got %v,%v", v.I == 1, b, err)
		}
	case ',':
		f, err := m.ToFloat64()
		want, perr := parseFloat(v.S)
		if perr != nil {
			return nil
		}
		if err != nil || !(f == want || (math.IsNaN(f) && math.IsNaN(want))) {
			return fmt.Errorf("want double %s, got %v,%v", v.S, f, err)
		}
	case '_':
		if !m.IsNil() {
			return fmt.Errorf("want null, got %s", m.String())
		}
	case '-', '!':
		err := m.Error()
		var re *rueidis.RedisError
		if !errors.As(err, &re) || rueidis.IsRedisNil(err) {
			return fmt.Errorf("want error reply %q, got %v", v.S, err)
		}
		if re.Error() != strings.TrimPrefix(v.S, "ERR ") {
			return fmt.Errorf("want error reply %q, got %q", v.S, re.Error())
		}
	case '*', '~', '>':
		a, err := m.ToArray()
		if err != nil {
			return fmt.Errorf("want aggregate of %d, got error %v", len(v.A), err)
		}
		if len(a) != len(v.A) {
			return fmt.Errorf("want aggregate of %d elements, got %d", len(v.A), len(a))
		}
		for i := range a {
			if err := Match(a[i], v.A[i]); err != nil {
				return fmt.Errorf("[%d]: %w", i, err)
			}
		}
	case '%':
		if !m.IsMap() {
			return fmt.Errorf("want map, got %s", short(m.String()))
		}
		mm, err := m.AsMap()
		if err != nil {
			return nil // non-string keys: not comparable through the public API
		}
		want := map[string]resp.Value{}
		for i := 0; i+1 < len(v.A); i += 2 {
			if k := v.A[i]; k.T == '$' || k.T == '+' {
				want[k.S] = v.A[i+1]
			} else {
				return nil
			}
		}
		if len(mm) != len(want) {
			return fmt.Errorf("want map of %d keys, got %d", len(want), len(mm))
		}
		for k, wv := range want {
			got, ok := mm[k]
			if !ok {
				return fmt.Errorf("map key %q missing", k)
			}
			if err := Match(got, wv); err != nil {
				return fmt.Errorf("{%q}: %w", k, err)
			}
		}
	default:
		return fmt.Errorf("harness: unexpected type %q", v.T)
	}
	return nil
}

func parseFloat(s string) (float64, error) {
	switch s {
	case "inf":
		return math.Inf(1), nil
	case "-inf":
		return math.Inf(-1), nil
	case "nan", "-nan":
		return math.NaN(), nil
	}
	return strconv.ParseFloat(s, 64)
}

func short(s string) string {
	if len(s) > 80 {
		return s[:80] + fmt.Sprintf("...(%d bytes)", len(s))
	}
	return s
}

// MatchResult compares a RedisResult with the expected value tree (error replies included).
func MatchResult(r rueidis.RedisResult, v resp.Value) error {
	m, err := r.ToMessage()
	if err != nil {
		if v.T == '_' && rueidis.IsRedisNil(err) {
			return nil
		}
		var re *rueidis.RedisError
		if (v.T == '-' || v.T == '!') && errors.As(err, &re) {
			if re.Error() != strings.TrimPrefix(v.S, "ERR ") {
				return fmt.Errorf("want error reply %q, got %q", v.S, re.Error())
			}
			return nil
		}
		return fmt.Errorf("want %s, got error %v", short(v.String()), err)
	}
	return Match(m, v)
}

// IsReplyError reports whether err is an error *reply* (RedisError, nil included) rather than
// a transport / context / client error.
func IsReplyError(err error) bool {
	var re *rueidis.RedisError
	return errors.As(err, &re)
}

// Clock helpers: microseconds since start.
type Clock struct{ start time.Time }

func NewClock() Clock         { return Clock{time.Now()} }
func (c Clock) Us() int64     { return time.Since(c.start).Microseconds() }
func (c Clock) SleepUntil(us int64) {
	if d := time.Duration(us)*time.Microsecond - time.Since(c.start); d > 0 {
		time.Sleep(d)
	}
}

// WaitGroupTimeout waits for wg for at most d (virtual) and reports whether it finished.
func WaitTimeout(wg *sync.WaitGroup, d time.Duration) bool {
	done := make(chan struct{})
	go func() { wg.Wait(); close(done) }()
	t := time.NewTimer(d)
	defer t.Stop()
	select {
	case <-done:
		return true
	case <-t.C:
		return false
	}
}

// CallTimeout runs f and reports whether it returned within d (virtual time).
func CallTimeout(d time.Duration, f func()) bool {
	var wg sync.WaitGroup
	wg.Add(1)
	go func() { defer wg.Done(); f() }()
	return WaitTimeout(&wg, d)
}

// ClientCommands is the closed list of commands the client issues on its own (handshake,
// keep-alive, cache opt-in, transaction wrappers, Pub/Sub cleanup, topology and role queries).
func ClientInternal(argv []string) bool {
	if len(argv) == 0 {
		return false
	}
	switch strings.ToUpper(argv[0]) {
	case "HELLO", "AUTH", "SELECT", "READONLY", "PING", "MULTI", "EXEC", "PTTL", "DISCARD", "ASKING", "ROLE", "SENTINEL":
		return true
	case "ECHO":
		return len(argv) == 2 && argv[1] == ""
	case "CLIENT":
		return len(argv) > 1
	case "CLUSTER":
		return len(argv) == 2 && (strings.EqualFold(argv[1], "SLOTS") || strings.EqualFold(argv[1], "SHARDS"))
	case "UNSUBSCRIBE", "PUNSUBSCRIBE", "SUNSUBSCRIBE":
		return true
	case "INFO":
		return true
	case "SUBSCRIBE":
		return len(argv) > 1 && strings.HasPrefix(argv[1], "+")
	}
	return false
}
